#!/bin/sh
# Builds the verification-condition generator from sources on disk (offline).
set -e
cd "$(dirname "$0")"
export GOFLAGS=-mod=mod GOPROXY=off GOSUMDB=off GOTOOLCHAIN=local GOWORK=off
mkdir -p bin .cache
(cd gocv && go build -o ../bin/gocv .)
for s in z3 z3-new cvc5; do command -v $s >/dev/null || { echo "missing solver $s"; exit 1; }; done
echo "gocv built; solvers: $(z3 --version), $(z3-new --version), $(cvc5 --version | head -1)"
