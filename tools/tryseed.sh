#!/bin/sh
# tools/tryseed.sh <patch> <PROP>...: apply a patch to a scratch copy of /repo and run check quick for the given properties
patch=$1; shift
cd "$(dirname "$0")/.."
scratch=$(mktemp -d /tmp/try.XXXXXX)
rsync -a --exclude .git /repo/ "$scratch/repo/"
(cd "$scratch/repo" && patch -p1 -s < "$patch") || { echo "does not apply"; rm -rf "$scratch"; exit 2; }
for p in "$@"; do
  bin/gocv -repo "$scratch/repo" -verif "$(pwd)" -out "$scratch/out" -tier quick check "$p" 2>&1 | grep -v "^KNOWN" | grep -E "obligation|quick:" | cut -c1-260 | head -8
done
rm -rf "$scratch"
