#!/bin/sh
# tools/benign-rename.sh [PROP...]: mass rename of every parameter, result and local variable of every function under
# contract (name -> nameQ) in a scratch copy of /repo; `check quick` must stay quiet on it for every claimed property.
cd "$(dirname "$0")/.."
export GOFLAGS=-mod=mod GOPROXY=off GOSUMDB=off GOTOOLCHAIN=local GOWORK=off
scratch=$(mktemp -d "${TMPDIR:-/tmp}/rn.XXXXXX")
trap 'rm -rf "$scratch"' EXIT
rsync -a --exclude .git /repo/ "$scratch/repo/"
bin/gocv -repo "$scratch/repo" -verif "$(pwd)" rename-locals || exit 2
(cd "$scratch/repo" && GOFLAGS= GOWORK= go build ./... && cd schema && GOFLAGS= GOWORK= go build ./...) || { echo "renamed copy does not build"; exit 2; }
props="$*"
[ -n "$props" ] || props=$(python3 -c "import json;d=json.load(open('props.json'));print(' '.join(k for k in sorted(d) if d[k].get('claimed')))")
rc=0
for p in $props; do
  out=$(bin/gocv -repo "$scratch/repo" -verif "$(pwd)" -out "$scratch/out" -tier quick check $p 2>&1); e=$?
  echo "$out" | grep -E "^$p quick:|^  obligation" | cut -c1-220
  [ $e -ne 0 ] && rc=1
done
exit $rc
