#!/usr/bin/env python3
"""tools/benignprompt.py <round> <PROP> [n]: the text given to a sub-agent that writes behaviour-preserving refactorings."""
import json, sys, os
r, p = sys.argv[1], sys.argv[2]; n = sys.argv[3] if len(sys.argv) > 3 else '3'
root = os.path.dirname(os.path.dirname(os.path.abspath(__file__)))
prop = [json.loads(l) for l in open(root + '/properties.jsonl') if json.loads(l)['id'] == p][0]
print(f"""You are a maintainer of a Go library doing clean-up work. The library is olive-io/bpmn (a lightweight BPMN 2.0 workflow engine in Go: goroutine-per-node token flow, gateways, events, timers, sub-processes, XML schema model). You have your own scratch git worktree of it at /tmp/wtb{r}-{p} (work ONLY there and in /tmp/benign{r}-{p}; never touch /repo or /verif, and do not read anything under /verif).

This behaviour of the library must be preserved by everything you do — property ({p}): "{prop['title']}". {prop['statement']}

Code it is anchored in: {', '.join(prop['anchors']['files'])}.

Task: produce {n} DIFFERENT behaviour-preserving source changes (pure refactorings; each independent, each a patch against the worktree's HEAD) to the non-test code this property depends on — the kind of change a reviewer approves as "no functional change": e.g. renaming local variables or parameters, reordering statements that do not depend on each other, introducing or inlining a local variable, rewriting a range loop as an index loop or the reverse, turning an if/else chain into a switch or into early returns, flipping a condition together with its branches, hoisting a loop-invariant expression, replacing `x = x + 1` by `x++`, splitting or merging declarations, adding comments. Make each patch a realistic clean-up of ONE function (or two closely related ones) that is central to the property (10-40 changed lines), and make the {n} patches differ in kind and in the function they touch. Do NOT change behaviour in any way (same calls in the same order with the same arguments, same channel operations in the same order, same locking, same results), do NOT rename or change the signature of any function, method, type or struct field, do NOT move code between functions or add new functions, do NOT change test files, testdata, go.mod or generated files.

Each change must (a) compile (`go build ./...` in the root and in ./schema), (b) keep the existing test suite passing (`cd /tmp/wtb{r}-{p} && go test -vet=off -count=1 -timeout 600s ./... && cd schema && go test -vet=off -count=1 ./...`; a few root-package tests are flaky/hang occasionally even on the unchanged tree — rerun up to 3 times before concluding), and (c) be gofmt-clean.

Never use `git stash` (the stash is shared by all worktrees of the repository and other people work in sibling worktrees). Environment: no network. Before any go command: `export GOFLAGS= GOPROXY=off GOSUMDB=off GOTOOLCHAIN=local`. The repo has a go.work (root module + ./schema).

Deliver, for change k = 1..{n}, a directory /tmp/benign{r}-{p}/change<k>/ containing patch.diff (`git diff` against the worktree HEAD, applies with `git apply`) and meta.json with keys: property ("{p}"), name (short-kebab-case), kind (what sort of refactoring), functions (which functions it touches), why_equivalent (one or two sentences), files_changed. Leave the worktree clean (git checkout -- .) when done. In your final answer list the {n} changes with one line each.""")
