#!/bin/sh
# tools/mkseedwt.sh <round> <PROP>: scratch worktree of /repo for a seeding sub-agent, contract files hidden
# (removed in a throw-away commit on the detached HEAD so that the agent's `git diff` shows only its own change).
r=$1; p=$2; wt=/tmp/wt$r-$p
git -C /repo worktree remove --force $wt >/dev/null 2>&1; rm -rf $wt /tmp/seed$r-$p
git -C /repo worktree add -q --detach $wt HEAD || exit 2
(cd $wt && git rm -q $(git ls-files | grep contracts_verif.go) && git -c user.name=s -c user.email=s@s commit -qm "scratch: hide contract files")
mkdir -p /tmp/seed$r-$p
echo $wt
