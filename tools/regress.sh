#!/bin/sh
# tools/regress.sh: `check quick` on every claimed property; prints one line per property and the violations.
cd "$(dirname "$0")/.."
rc=0
for p in $(python3 -c "import json;d=json.load(open('props.json'));print(' '.join(k for k in sorted(d) if d[k].get('claimed')))"); do
  out=$(./check quick $p 2>&1); e=$?
  echo "$out" | grep -E "^$p quick:|^  obligation|^KNOWN-FINDING" | cut -c1-200
  [ $e -ne 0 ] && rc=1
done
exit $rc
