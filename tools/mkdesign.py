#!/usr/bin/env python3
"""tools/mkdesign.py: regenerates the generated part of DESIGN.md (between the GENERATED markers) from props.json,
properties.jsonl, known_findings.txt, unclaimed_obligations.json, seeded/*/meta.json, selftest/ and evidence/.
The hand-written part of DESIGN.md is left alone."""
import json, os, re, glob

root = os.path.dirname(os.path.dirname(os.path.abspath(__file__)))
P = lambda *a: os.path.join(root, *a)
props = json.load(open(P('props.json')))
titles = {}
for l in open(P('properties.jsonl')):
    d = json.loads(l)
    titles[d['id']] = d['title']

out = []
w = out.append
w('## A. Per-property decisions (generated from props.json, evidence/, seeded/, known_findings.txt)\n')
for pid in sorted(titles):
    p = props.get(pid, {})
    w('### %s — %s\n' % (pid, titles[pid]))
    if not p.get('claimed'):
        w('**Not applicable.** %s\n' % p.get('na_reason', 'see section 9'))
        continue
    ev = {}
    try:
        ev = json.load(open(P('evidence', pid + '.json')))
    except Exception:
        pass
    cov = ev.get('coverage', {})
    w('**Claimed, level `%s`.** %s\n' % (p.get('level', '?'), p.get('level_note', '')))
    if cov:
        w('Last run (%s): %s functions and lemmas under contract, %s obligations (%s solver queries, path members included), %s discharged, solver time %ss; known findings: %s.\n' % (
            ev.get('tier', '?'), len(cov.get('functions_under_contract') or []),
            cov.get('obligations', '?'), cov.get('queries', '?'), cov.get('discharged', '?'), cov.get('solver_time_s', '?'),
            ', '.join(cov.get('known_findings') or []) or 'none'))
    w('*What is proved.* %s\n' % p.get('level_text', ''))
    if p.get('assumptions'):
        w('*Assumptions specific to this property.*\n')
        for a in p['assumptions']:
            w('- %s' % a)
        w('')
    if p.get('not_decided'):
        w('*Not decided.*\n')
        for a in p['not_decided']:
            w('- %s' % a)
        w('')
    seeds = sorted(glob.glob(P('seeded', pid + '-*')))
    if seeds:
        w('*Seeded changes (each confirmed: builds, existing suite passes, its demonstration fails with / passes without it).*\n')
        for s in seeds:
            try:
                m = json.load(open(os.path.join(s, 'meta.json')))
            except Exception:
                continue
            v = m.get('check_verdict', '?')
            v = re.sub(r' at /tmp/\S+', '', v)
            obs = re.findall(r'obligation (\S+(?: @C\d\d)?) \[(\w+)\]', v)
            verdict = 'MISSED' if v.startswith('MISSED') else 'caught by ' + '; '.join('`%s` [%s]' % o for o in obs[:3])
            w('- `%s`: %s — %s' % (os.path.basename(s), (m.get('what_breaks', '') or '').split('. ')[0][:220], verdict))
        w('')
    muts = sorted(glob.glob(P('selftest', 'mutants', pid, '*.patch')))
    if muts:
        w('*Selftest canaries (must fail):* ' + ', '.join('`%s`' % os.path.basename(m)[:-6] for m in muts) + '\n')

w('## B. Genuine defects (from known_findings.txt)\n')
for l in open(P('known_findings.txt')):
    l = l.strip()
    if l.startswith('fixed:') or l.startswith('finding:'):
        w('- ' + l)
w('')
w('## C. Obligations generated but not claimed (unclaimed_obligations.json)\n')
for u in json.load(open(P('unclaimed_obligations.json'))):
    w('- `%s`: %s' % (u['name'], u['reason']))
w('')

txt = open(P('DESIGN.md')).read()
a, b = '<!-- GENERATED:BEGIN -->', '<!-- GENERATED:END -->'
if a in txt and b in txt:
    txt = txt[:txt.index(a) + len(a)] + '\n' + '\n'.join(out) + '\n' + txt[txt.index(b):]
    open(P('DESIGN.md'), 'w').write(txt)
    print('DESIGN.md: generated part updated (%d lines)' % len(out))
else:
    print('markers not found')
