#!/bin/sh
# tools/selftest-recent.sh <since-commit>: the must-fail check for the seeded changes stored or changed in /verif since
# that commit and for the canaries given as further arguments; output in selftest.sh's format, so that
# tools/updateverdicts.py can take it.  One patch at a time (parallel runs make solver timeouts, which read as catches).
cd "$(dirname "$0")/.."
export GOFLAGS=-mod=mod GOPROXY=off GOSUMDB=off GOTOOLCHAIN=local GOWORK=off
since=${1:-HEAD~20}; [ $# -gt 0 ] && shift
run_one() { prop=$1; patch=$2
  scratch=$(mktemp -d "${TMPDIR:-/tmp}/gocv.XXXXXX")
  rsync -a --exclude .git /repo/ "$scratch/repo/"
  if ! (cd "$scratch/repo" && patch -p1 -s < "$patch") ; then echo "SELFTEST-ERROR $patch does not apply"; rm -rf "$scratch"; return; fi
  bin/gocv -repo "$scratch/repo" -verif "$(pwd)" -out "$scratch/out" -tier quick check "$prop" > "$scratch/log" 2>&1; rc=$?
  if [ $rc -eq 1 ] && grep -q '^VIOLATION' "$scratch/log"; then
    echo "caught   $prop $(basename $(dirname $patch))/$(basename $patch): $(grep -A1 '^VIOLATION' "$scratch/log" | grep obligation | head -1 | sed 's/^ *//' | cut -c1-150)"
  else echo "MISSED   $prop $(basename $(dirname $patch))/$(basename $patch) (exit $rc)"; fi
  rm -rf "$scratch"
}
for d in $(git diff --name-only "$since" HEAD -- seeded | grep meta.json | xargs -n1 dirname | sort); do
  prop=$(basename "$d" | cut -c1-3)
  run_one "$prop" "$(pwd)/$d/patch.diff"
done
for p in "$@"; do
  prop=$(basename "$(dirname "$p")"); run_one "$prop" "$(pwd)/$p"
done
