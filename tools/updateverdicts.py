#!/usr/bin/env python3
"""tools/updateverdicts.py <selftest-log>: rewrite check_verdict in seeded/*/meta.json from a selftest run's output."""
import json, re, sys, os
root = os.path.dirname(os.path.dirname(os.path.abspath(__file__)))
n = 0
for line in open(sys.argv[1]):
    m = re.match(r'^(caught|MISSED)\s+(C\d\d) (C\d\d-[^/]+)/patch\.diff:?\s*(.*)$', line.rstrip())
    if not m:
        continue
    kind, prop, name, rest = m.groups()
    p = os.path.join(root, 'seeded', name, 'meta.json')
    if not os.path.exists(p):
        continue
    meta = json.load(open(p))
    v = ('caught: ' + re.sub(r' at /tmp/\S+', '', rest)) if kind == 'caught' else 'MISSED ' + rest
    if meta.get('check_verdict') != v:
        meta['check_verdict'] = v
        json.dump(meta, open(p, 'w'), indent=1)
        n += 1
print('updated', n)
