#!/bin/sh
# tools/confirmseed.sh <PROP> <srcdir> <name> <demo-target-relpath>
# Confirms a seeded change in a scratch worktree (builds, suite passes, demo fails with / passes without the change),
# stores it under /verif/seeded/<PROP>-<name>/ and reports whether `check quick <PROP>` catches it.
prop=$1; src=$2; name=$3; demo=$4
cd "$(dirname "$0")/.."
export GOFLAGS= GOPROXY=off GOSUMDB=off GOTOOLCHAIN=local
wt=$(mktemp -d /tmp/confirm.XXXXXX)
trap 'git -C /repo worktree remove --force "$wt" >/dev/null 2>&1; rm -rf "$wt"' EXIT
git -C /repo worktree add -q --detach "$wt" HEAD || exit 2
log="$wt/.confirm.log"; : > "$log"
res() { echo "$1" | tee -a "$log"; }
demofile=$(ls "$src"/demo*_test.go "$src"/*_test.go 2>/dev/null | head -1)
[ -f "$demofile" ] || { res "no demo test in $src"; exit 2; }
demodir=$(dirname "$wt/$demo")
cp "$demofile" "$wt/$demo"
for f in "$src"/*.bpmn; do [ -f "$f" ] && cp "$f" "$wt/testdata/"; done
runname=$(grep -o 'func Test[A-Za-z0-9_]*' "$demofile" | sed 's/func //' | paste -sd'|')
# demonstrations of data races need the race detector (meta.json's how_to_run says so)
race=""; grep -q -- '-race' "$src/meta.json" 2>/dev/null && race="-race"
# 1. demo passes without the change
if (cd "$demodir" && go test $race -vet=off -count=1 -timeout 300s -run "$runname" . >"$wt/.d0" 2>&1); then res "demo passes on the unchanged tree"; else res "DEMO FAILS ON THE UNCHANGED TREE"; tail -5 "$wt/.d0"; exit 1; fi
# 2. apply
(cd "$wt" && git apply "$src/patch.diff") || { res "patch does not apply"; exit 1; }
(cd "$wt" && go build ./... >"$wt/.b" 2>&1 && cd schema && go build ./... >>"$wt/.b" 2>&1) || { res "does not build"; exit 1; }
res "builds with the change"
if (cd "$demodir" && go test $race -vet=off -count=1 -timeout 300s -run "$runname" . >"$wt/.d1" 2>&1); then res "DEMO PASSES WITH THE CHANGE (not a demonstration)"; exit 1; else res "demo fails with the change: $(grep -m1 -E -- '--- FAIL|panic:|DATA RACE' "$wt/.d1")"; fi
rm -f "$wt/$demo"
ok=0
for try in 1 2 3; do
  if (cd "$wt" && go test -vet=off -count=1 -timeout 300s ./... >"$wt/.t" 2>&1 && cd schema && go test -vet=off -count=1 -timeout 300s ./... >>"$wt/.t" 2>&1); then ok=1; break; fi
  grep -E '^(--- FAIL|FAIL)' "$wt/.t" | head -3 >> "$log"
done
[ $ok = 1 ] && res "existing suite passes with the change (try $try)" || { res "EXISTING SUITE FAILS WITH THE CHANGE"; exit 1; }
# 3. does the check catch it?
out=$(mktemp -d /tmp/confirmout.XXXXXX)
rsync -a --exclude .git "$wt"/ "$out/repo/"
bin/gocv -repo "$out/repo" -verif "$(pwd)" -out "$out/out" -tier quick check "$prop" > "$out/log" 2>&1; rc=$?
if [ $rc -eq 1 ] && grep -q '^VIOLATION' "$out/log"; then verdict="caught: $(grep -A1 '^VIOLATION' "$out/log" | grep obligation | head -2 | sed 's/^ *//' | cut -c1-200 | tr '\n' ';')"; else verdict="MISSED (exit $rc)"; fi
res "check quick $prop: $verdict"
dest="seeded/$prop-$name"; mkdir -p "$dest"
cp "$src/patch.diff" "$dest/"; cp "$demofile" "$dest/"; for f in "$src"/*.bpmn; do [ -f "$f" ] && cp "$f" "$dest/"; done
python3 - "$src/meta.json" "$dest/meta.json" "$log" "$demo" "$verdict" <<'PY'
import json,sys
src,dst,log,demo,verdict=sys.argv[1:6]
try: m=json.load(open(src))
except Exception: m={}
m['demo_location']=demo
m['confirmed_by_verif']=open(log).read().strip().split('\n')
m['check_verdict']=verdict
json.dump(m,open(dst,'w'),indent=1)
PY
rm -rf "$out"
