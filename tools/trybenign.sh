#!/bin/sh
# tools/trybenign.sh <round> <PROP> [extra PROP...]: run check quick on every /tmp/benign<round>-<PROP>/change*/patch.diff;
# quiet ones are stored under selftest/benign/<PROP>/, alarms are printed (and stored as <name>.patch.alarm for triage)
r=$1; p=$2; shift; shift
cd "$(dirname "$0")/.."
for d in /tmp/benign$r-$p/change*; do
  [ -f "$d/patch.diff" ] || continue
  name=$(python3 -c "import json;print(json.load(open('$d/meta.json'))['name'])" 2>/dev/null || basename $d)
  echo "=== $p $name: $(grep '^+++' $d/patch.diff | sed 's/+++ b\///' | tr '\n' ' ')"
  out=$(tools/tryseed.sh $d/patch.diff $p "$@" 2>&1)
  echo "$out"
  mkdir -p selftest/benign/$p
  if echo "$out" | grep -q "^  obligation\|does not apply"; then cp $d/patch.diff selftest/benign/$p/$name.patch.alarm; else cp $d/patch.diff selftest/benign/$p/$name.patch; fi
done
