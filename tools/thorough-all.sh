#!/bin/sh
# tools/thorough-all.sh: `check thorough` (without the must-fail corpus) on every claimed property.
cd "$(dirname "$0")/.."
rc=0
for p in $(python3 -c "import json;d=json.load(open('props.json'));print(' '.join(k for k in sorted(d) if d[k].get('claimed')))"); do
  out=$(VERIF_NO_ADEQUACY=1 ./check thorough $p 2>&1); e=$?
  echo "$out" | grep -E "^$p thorough:|^  obligation" | cut -c1-200
  [ $e -ne 0 ] && rc=1
done
exit $rc
