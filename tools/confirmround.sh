#!/bin/sh
# tools/confirmround.sh <round> <PROP>...: confirm every /tmp/seed<round>-<PROP>/change*/ with confirmseed.sh
r=$1; shift
cd "$(dirname "$0")/.."
for p in "$@"; do
  for d in /tmp/seed$r-$p/change*; do
    [ -f "$d/meta.json" ] || continue
    name=$(python3 -c "import json,sys;print(json.load(open('$d/meta.json'))['name'])")
    loc=$(python3 -c "import json,sys;print(json.load(open('$d/meta.json'))['demo_location'])")
    case "$loc" in *.go) ;; */) loc="${loc}demo_test.go" ;; *) loc="$loc/demo_test.go" ;; esac
    echo "=== $p $name ($loc)"
    tools/confirmseed.sh $p $d $name $loc 2>&1 | tail -6
  done
done
