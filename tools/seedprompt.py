#!/usr/bin/env python3
"""tools/seedprompt.py <round> <PROP> [n]: the text given to a seeding sub-agent (property statement, worktree, what exists already)."""
import json, sys, glob, os
r, p = sys.argv[1], sys.argv[2]; n = sys.argv[3] if len(sys.argv) > 3 else '2'
root = os.path.dirname(os.path.dirname(os.path.abspath(__file__)))
prop = [json.loads(l) for l in open(root + '/properties.jsonl') if json.loads(l)['id'] == p][0]
have = []
for d in sorted(glob.glob(f'{root}/seeded/{p}-*')):
    m = json.load(open(d + '/meta.json'))
    have.append('- ' + ' '.join((m.get('what_breaks') or '').split())[:260])
print(f"""You are testing how robust a Go library's behaviour is against subtle regressions. The library is olive-io/bpmn (a lightweight BPMN 2.0 workflow engine in Go: goroutine-per-node token flow, gateways, events, timers, sub-processes, XML schema model). You have your own scratch git worktree of it at /tmp/wt{r}-{p} (work ONLY there and in /tmp/seed{r}-{p}; never touch /repo or /verif, and do not read anything under /verif).

Property ({p}): "{prop['title']}". {prop['statement']}

Code it is anchored in: {', '.join(prop['anchors']['files'])}.

Task: produce {n} DIFFERENT source changes (each independent, each a patch against the worktree's HEAD) to the library's non-test code that BREAK this property while (a) the code still compiles, (b) the existing test suite still passes (`cd /tmp/wt{r}-{p} && go test -vet=off -count=1 -timeout 600s ./... && cd schema && go test -vet=off -count=1 ./...`; a few root-package tests are flaky/hang occasionally even on the unchanged tree — rerun up to 3 times before concluding), and (c) you have a demonstration — one Go test file (package-internal or external, placed in the package directory) — that FAILS with the change and PASSES on the unchanged tree (run it several times each way; use -race only if the breakage is a data race and say so).

The changes must look like plausible maintenance slips or "optimisations" (a refactor that loses a case, a reordered statement, a wrong lock, an off-by-one, a dropped reset, a condition that is weakened or strengthened, two sites that each look fine alone) and must need something specific to manifest: a particular interleaving, a crash/cancel at a particular point, a multi-step sequence of operations, an unusual input, or two cooperating sites — NOT something ordinary use or the existing tests expose at once. Do not change test files, testdata, go.mod or generated files' headers. Keep each change small (ideally < 30 lines).

Changes of these kinds exist already — make yours different in kind and location:
{chr(10).join(have) if have else '- (none yet)'}

Never use `git stash` (the stash is shared by all worktrees of the repository and other people work in sibling worktrees): save work with `git diff > file` and restore with `git checkout -- .` / `git apply file`. Environment: no network. Before any go command: `export GOFLAGS= GOPROXY=off GOSUMDB=off GOTOOLCHAIN=local`. The repo has a go.work (root module + ./schema). Known quirks of the unchanged tree you may have to design around: delivering events to a catch/start/throw event no token has reached can block; an interrupting boundary event cannot cancel a pending task; a sub-process entered a second time does not restart; simultaneous delivery to both alternatives of an event-based gateway can deadlock.

Deliver, for change k = 1..{n}, a directory /tmp/seed{r}-{p}/change<k>/ containing: patch.diff (`git diff` of the non-test change only, against the worktree HEAD, applies with `git apply`), demo_test.go (the demonstration; say in meta.json which directory it goes in, relative to the repo root, e.g. "demo_test.go" or "pkg/timer/demo_test.go"), any extra .bpmn fixture it needs, and meta.json with keys: property ("{p}"), name (short-kebab-case), demo_location, what_breaks, needs_to_manifest, how_to_run, files_changed. Leave the worktree clean (git checkout -- . ; remove your demo files) when done. In your final answer list the {n} changes with one paragraph each and the exact commands you ran to confirm (a)-(c).""")
