#!/bin/sh
# tools/mkmutant.sh <mutants|benign> <PROP> <name> <file> <python-expr on s>   e.g.  's.replace("a == b", "a >= b", 1)'
# Creates selftest/<kind>/<PROP>/<name>.patch after confirming that the changed repo still builds and passes its tests.
set -e
kind=$1; prop=$2; name=$3; file=$4; expr=$5
cd "$(dirname "$0")/.."
scratch=$(mktemp -d /tmp/mkmut.XXXXXX)
trap 'rm -rf "$scratch"' EXIT
rsync -a --exclude .git /repo/ "$scratch/a/"
rsync -a --exclude .git /repo/ "$scratch/b/"
python3 - "$scratch/b/$file" "$expr" <<'PY'
import sys
p, expr = sys.argv[1], sys.argv[2]
s = open(p).read()
t = eval(expr)
if t == s:
    print("mutation did not change the file"); sys.exit(3)
open(p, 'w').write(t)
PY
mkdir -p selftest/$kind/$prop
(cd "$scratch" && diff -u "a/$file" "b/$file" > out.patch || true)
cp "$scratch/out.patch" selftest/$kind/$prop/$name.patch
# must compile and pass the repository's own tests
export GOFLAGS= GOPROXY=off GOSUMDB=off GOTOOLCHAIN=local
dir=$(dirname "$file")
if (cd "$scratch/b" && go build ./... >/dev/null 2>"$scratch/build.log") ; then :; else echo "DROPPED $name: does not build"; cat "$scratch/build.log" | head -5; rm selftest/$kind/$prop/$name.patch; exit 1; fi
case "$file" in schema/*) tdir="$scratch/b/schema"; pk=./... ;; *) tdir="$scratch/b"; pk=./... ;; esac
if (cd "$tdir" && go test -vet=off -count=1 -timeout 120s $pk >"$scratch/test.log" 2>&1); then echo "ok $kind/$prop/$name (builds, tests pass)"; else
  # the baseline has one flaky test; rerun once
  if (cd "$tdir" && go test -vet=off -count=1 -timeout 120s $pk >"$scratch/test.log" 2>&1); then echo "ok $kind/$prop/$name (builds, tests pass on 2nd run)"; else echo "DROPPED $name: repository tests fail"; grep -E '^(--- FAIL|FAIL|panic)' "$scratch/test.log" | head -5; rm selftest/$kind/$prop/$name.patch; exit 1; fi
fi
