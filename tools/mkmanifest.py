#!/usr/bin/env python3
"""Generates MANIFEST.json from props.json (single source of truth for what is claimed)."""
import json, subprocess, os
root = os.path.dirname(os.path.dirname(os.path.abspath(__file__)))
props = json.load(open(os.path.join(root, 'props.json')))
all_ids = [json.loads(l)['id'] for l in open(os.path.join(root, 'properties.jsonl'))]
commits = subprocess.run(['git', '-C', '/repo', 'log', '--format=%H %s', '1a08224..HEAD'], capture_output=True, text=True).stdout.strip().split('\n')
hook_commits = [c.split()[0] for c in commits if c and c.split(' ', 1)[1].startswith('verif:')]
checks, na = [], []
claimed = []
for pid in all_ids:
    p = props.get(pid, {})
    if p.get('claimed'):
        claimed.append(pid)
        checks.append({
            'property_id': pid,
            'quick_cmd': f'./check quick {pid}',
            'thorough_cmd': f'./check thorough {pid}',
            'evidence_file': f'/verif/evidence/{pid}.json',
            'replay_cmd_template': './check replay {path}',
            'engine': 'gocv',
            'level_claimed': {'category': p.get('level', 'proof'), 'text': p['level_text'], 'design_ref': p.get('design_ref', 'DESIGN.md appendix A, ' + pid)},
            'level_note': p['level_note'],
            'technique': p.get('technique', 'contract-based deductive verification: VCs generated from the real Go source (go/ast+go/types) against //@ contracts, discharged by z3/cvc5'),
        })
    else:
        na.append({'property_id': pid, 'reason': p.get('na_reason', 'contracts designed (DESIGN.md §3) but not yet discharged on the unchanged tree; no alarm could be trusted, so the property is not claimed')})
m = {
    'version': 1,
    'setup_cmd': 'cd /verif && ./setup.sh',
    'hooks': {
        'guard': 'verif',
        'enable': 'go build tag: -tags verif adds the comment-only files contracts_verif.go (//@ contract lines, no Go declarations) to the packages; gocv loads /repo with this tag',
        'baseline_off_cmd': 'cd /repo && go test -vet=off -count=1 ./... && cd /repo/schema && go test -vet=off -count=1 ./...',
        'source_commits': hook_commits,
        'add_only': True,
    },
    'engines': [{'name': 'gocv', 'path': '/verif/gocv', 'serves_properties': claimed,
                 'kind_free_text': 'verification-condition generator for Go written for this task (forward symbolic execution of the real source over go/ast+go/types, contracts in //@ comment files guarded by the build tag) + SMT discharge racing z3 5.1.0, z3 4.8.12, cvc5 1.0.3'}],
    'checks': checks,
    'not_applicable': na,
    'notes': 'One technique family throughout: contract-based deductive verification. Each claimed check proves the listed obligations for all inputs; the schedule-quantified remainder of each property is listed as unchecked assumptions in the evidence and in DESIGN.md.',
}
json.dump(m, open(os.path.join(root, 'MANIFEST.json'), 'w'), indent=1)
print('claimed:', claimed)
