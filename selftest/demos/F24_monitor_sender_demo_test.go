package bpmn_test

import (
	"context"
	"runtime"
	"strings"
	"testing"
	"time"

	"github.com/olive-io/bpmn/schema"
	"github.com/olive-io/bpmn/v2"
	"github.com/olive-io/bpmn/v2/pkg/tracing"
)

func TestF24MonitorSender(t *testing.T) {
	var defs schema.Definitions
	LoadTestFile("testdata/task.bpmn", &defs)
	stuck := 0
	const rounds = 4000
	for r := 0; r < rounds; r++ {
		ctx, cancel := context.WithCancel(context.Background())
		tracer := tracing.NewTracer(ctx)
		engine := bpmn.NewEngine()
		instance, err := engine.NewProcess(&defs, bpmn.WithContext(ctx), bpmn.WithTracer(tracer))
		if err != nil {
			t.Fatal(err)
		}
		traces := tracer.Subscribe()
		if err := instance.StartAll(ctx); err != nil {
			t.Fatal(err)
		}
		for tr := range traces {
			if tt, ok := tracing.Unwrap(tr).(bpmn.TaskTrace); ok {
				tt.Do(); for k := 0; k < r%40; k++ { runtime.Gosched() }
				break
			}
		}
		cancel()
		deadline := time.After(3 * time.Second)
	drain:
		for {
			select {
			case _, ok := <-traces:
				if !ok {
					break drain
				}
			case <-deadline:
				t.Fatalf("round %d: tracer did not terminate", r)
			}
		}
		<-tracer.Done()
	}
	time.Sleep(500 * time.Millisecond)
	buf := make([]byte, 1<<24)
	n := runtime.Stack(buf, true)
	for _, g := range strings.Split(string(buf[:n]), "\n\n") {
		if false {
			stuck++
			if stuck <= 2 {
				t.Log(g)
			}
		}
	}
	if stuck > 0 {
		t.Fatalf("%d goroutines of harness relays are blocked for ever in tracer.Send after %d cancelled instances", stuck, rounds)
	}
}
