package bpmn_test

import (
	"context"
	"runtime"
	"strings"
	"testing"
	"time"

	"github.com/olive-io/bpmn/schema"
	"github.com/olive-io/bpmn/v2"
	"github.com/olive-io/bpmn/v2/pkg/tracing"
)

func TestF25ProcessSetLoopSendsToATerminatedTracer(t *testing.T) {
	const rounds = 3000
	for r := 0; r < rounds; r++ {
		definitions := schema.DefaultDefinitions()
		p1 := schema.NewProcessBuilder().Out()
		p1.IdField = schema.NewStringP("process-1")
		p1.IsExecutableField = schema.NewBoolP(true)
		definitions.ProcessField = []schema.Process{*p1}

		ctx, cancel := context.WithCancel(context.Background())
		tracer := tracing.NewTracer(ctx)
		engine := bpmn.NewEngine()
		ps, err := engine.NewProcessSet(&definitions, bpmn.WithContext(ctx), bpmn.WithTracer(tracer))
		if err != nil {
			t.Fatal(err)
		}
		traces := tracer.Subscribe()
		go func() {
			for range traces {
			}
		}()
		if err := ps.StartAll(ctx); err != nil {
			t.Fatal(err)
		}
		waited := make(chan bool, 1)
		go func() { waited <- ps.WaitUntilComplete(ctx) }()
		for k := 0; k < r%60; k++ {
			runtime.Gosched()
		}
		if r%3 == 0 {
			select {
			case <-waited:
			case <-time.After(200 * time.Millisecond):
			}
		}
		cancel()
		select {
		case <-tracer.Done():
		case <-time.After(300 * time.Millisecond):
			_ = r
		}
	}
	time.Sleep(500 * time.Millisecond)
	buf := make([]byte, 1<<24)
	n := runtime.Stack(buf, true)
	stuck := 0
	for _, g := range strings.Split(string(buf[:n]), "\n\n") {
		if strings.Contains(g, "tracing.(*tracer).Send") && strings.Contains(g, "ProcessSet") {
			stuck++
			if stuck <= 2 {
				t.Log(g)
			}
		}
	}
	if stuck > 0 {
		t.Fatalf("%d process-set goroutines are blocked for ever in tracer.Send after %d cancelled sets", stuck, rounds)
	}
}
