package main

import (
	"fmt"
	"go/ast"
	"go/token"
	"go/types"
	"golang.org/x/tools/go/packages"
	"sort"
	"strconv"
	"strings"
)

type FuncResult struct {
	Key      string
	Obligs   []*Oblig
	Err      string // unsupported / contract error: no obligations can be trusted
	Warnings []string
	HasSpec  bool
}

// boxedVarsOf: local variables whose address is taken with & (cells on the heap).
func boxedVarsOf(fi *FuncInfo) map[types.Object]bool {
	out := map[types.Object]bool{}
	info := fi.Pkg.TypesInfo
	ast.Inspect(fi.Decl, func(n ast.Node) bool {
		// x.M() with a pointer-receiver method on an addressable struct variable takes &x implicitly
		if call, ok := n.(*ast.CallExpr); ok {
			if sel, ok := unparen(call.Fun).(*ast.SelectorExpr); ok {
				if s := info.Selections[sel]; s != nil && s.Kind() == types.MethodVal && len(s.Index()) == 1 {
					if fn, ok := s.Obj().(*types.Func); ok {
						if rs := fn.Type().(*types.Signature).Recv(); rs != nil {
							_, wantPtr := types.Unalias(rs.Type()).(*types.Pointer)
							if id, ok := unparen(sel.X).(*ast.Ident); ok && wantPtr {
								if v, ok := info.ObjectOf(id).(*types.Var); ok && !isGlobal(v) {
									if st, named, isPtr := structOf(v.Type()); st != nil && !isPtr && !opaqueNamed(named) {
										out[v] = true
									}
								}
							}
						}
					}
				}
			}
			return true
		}
		u, ok := n.(*ast.UnaryExpr)
		if !ok || u.Op != token.AND {
			return true
		}
		x := unparen(u.X)
		// &x, &x.f, &x.f.g : x escapes when it is a local struct value (not when the path goes through a pointer)
		for {
			if id, ok := x.(*ast.Ident); ok {
				if v, ok := info.ObjectOf(id).(*types.Var); ok && !isGlobal(v) {
					out[v] = true
				}
				break
			}
			sel, ok := x.(*ast.SelectorExpr)
			if !ok {
				break
			}
			if s := info.Selections[sel]; s == nil || s.Kind() != types.FieldVal {
				break
			}
			if _, _, isPtr := structOf(info.TypeOf(sel.X)); isPtr {
				break
			}
			x = unparen(sel.X)
		}
		return true
	})
	return out
}

// verifyFunc generates the obligations of one function.  With `flag paths` in its contract the body is explored path
// by path (every if/else decision and every way out of a loop is a separate run, no state merging): each obligation is
// then a group of queries, one per path on which it arises, all of which must be discharged.
func (w *World) verifyFunc(fi *FuncInfo, props []string) *FuncResult {
	if fi.Spec == nil || fi.Spec.Flags["paths"] == "" {
		r, _, _ := w.verifyFuncOnce(fi, props, nil, false)
		return r
	}
	var all *FuncResult
	var prefix []int
	for run := 1; ; run++ {
		r, taken, arity := w.verifyFuncOnce(fi, props, prefix, true)
		if r.Err != "" {
			return r
		}
		for _, ob := range r.Obligs {
			ob.Group = ob.Name
			if k := strings.LastIndex(ob.Group, "~"); k > 0 {
				if _, err := strconv.Atoi(ob.Group[k+1:]); err == nil && !strings.Contains(ob.Group[k:], "(") {
					// the same clause met again on this path (several exits): one group
					if ob.Class == "post" || ob.Class == "frame" || ob.Class == "vacuity" || ob.Class == "lock-released" {
						ob.Group = ob.Group[:k]
					}
				}
			}
			ob.Name = fmt.Sprintf("%s~path%d", ob.Name, run)
		}
		if all == nil {
			all = r
		} else {
			all.Obligs = append(all.Obligs, r.Obligs...)
			all.Warnings = append(all.Warnings, r.Warnings...)
		}
		// next path: flip the last decision that still has an untried alternative
		i := len(taken) - 1
		for i >= 0 && taken[i]+1 >= arity[i] {
			i--
		}
		if i < 0 {
			break
		}
		prefix = append(append([]int(nil), taken[:i]...), taken[i]+1)
		if run >= 256 {
			all.Err = "unsupported: more than 256 paths with `flag paths`"
			all.Obligs = nil
			break
		}
	}
	return all
}

func (w *World) verifyFuncOnce(fi *FuncInfo, props []string, prefix []int, pathMode bool) (res *FuncResult, taken, arity []int) {
	if fi.Spec != nil && fi.Spec.Assumed {
		// an assumed (trusted) contract on a repository function is what its callers see; the body itself is checked
		// as an unannotated function (safety sweep), not against the assumption
		cp := *fi
		cp.Spec = nil
		if len(fi.Spec.Asserts) > 0 {
			// statement-anchored assertions are about the body, not about what callers see: they are checked
			cp.Spec = &FuncSpec{Key: fi.Spec.Key, PkgPath: fi.Spec.PkgPath, Name: fi.Spec.Name, Asserts: fi.Spec.Asserts, Props: fi.Spec.Props,
				File: fi.Spec.File, Line: fi.Spec.Line, Flags: map[string]string{}, Loops: fi.Spec.Loops}
			if cp.Spec.Loops == nil {
				cp.Spec.Loops = map[int]*LoopSpec{}
			}
		}
		fi = &cp
	}
	res = &FuncResult{Key: fi.Key, HasSpec: fi.Spec != nil}
	c := newCtx(w, shortKey(fi.Key))
	c.props = props
	c.boxedVars = boxedVarsOf(fi)
	c.interior = map[string]*Loc{}
	fx := &Fx{c: c, w: w, fi: fi, pkg: fi.Pkg, info: fi.Pkg.TypesInfo, spec: fi.Spec, pathMode: pathMode, prefix: prefix}
	defer func() { taken, arity = fx.taken, fx.arity }()
	defer func() {
		// a loop contract whose ordinal names no loop of the function would silently check nothing: fail closed
		if res.Err == "" && !pathMode && fi.Spec != nil {
			for _, ord := range sortedLoopOrds(fi.Spec.Loops) {
				if ord > fx.maxLoopOrd {
					res.Err = fmt.Sprintf("contract error: `loop %d %s` binds to no loop of %s (it has %d)", ord, fi.Spec.Loops[ord].Hint, shortKey(fi.Key), fx.maxLoopOrd)
					res.Obligs = nil
					break
				}
			}
			for _, a := range fi.Spec.Asserts {
				if res.Err == "" && !fx.assertSeen[a] {
					res.Err = fmt.Sprintf("contract error: `assert before %q` names no statement of %s", a.Anchor, shortKey(fi.Key))
					res.Obligs = nil
				}
			}
			for _, d := range fi.Spec.Defensive {
				if res.Err == "" && !fx.defensiveSeen[d] {
					res.Err = fmt.Sprintf("contract error: `defensive %s` names no if-condition of %s", d, shortKey(fi.Key))
					res.Obligs = nil
				}
			}
		}
	}()
	defer func() {
		res.Warnings = c.warnings
		if r := recover(); r != nil {
			switch e := r.(type) {
			case unsupported:
				res.Err = e.Error()
			case specErr:
				res.Err = e.Error()
			case error:
				if strings.HasPrefix(e.Error(), "unsupported") || strings.HasPrefix(e.Error(), "heap ") {
					res.Err = e.Error()
					return
				}
				panic(r)
			default:
				panic(r)
			}
			res.Obligs = nil
		}
	}()
	st := newState(c)
	fx.entry = st
	fx.emitAxioms(st)
	// parameters
	var sig *types.Signature
	if fi.Lit != nil {
		sig = fi.Pkg.TypesInfo.TypeOf(fi.Lit).(*types.Signature)
	} else {
		sig = fi.Obj.Type().(*types.Signature)
	}
	declParam := func(obj types.Object, nonNil bool) {
		if obj == nil || obj.Name() == "_" || obj.Name() == "" {
			return
		}
		srt := c.sortOf(obj.Type())
		n := c.freshConst("in_"+obj.Name(), srt)
		if ra := c.rangeAssume(n, obj.Type()); ra != "" {
			st.assume(ra)
		}
		if rf := c.refTypeFact(n, obj.Type()); rf != "" {
			st.assume(rf)
		}
		switch types.Unalias(obj.Type()).Underlying().(type) {
		case *types.Pointer, *types.Chan, *types.Map, *types.Signature:
			st.assume(fmt.Sprintf("(<= %s %s)", n, st.alloc))
			if nonNil {
				st.assume(fmt.Sprintf("(> %s 0)", n))
			}
		case *types.Slice:
			st.assume(fmt.Sprintf("(<= (s_base %s) %s)", n, st.alloc))
		}
		c.inputs = append(c.inputs, ModelVar{Name: obj.Name(), Term: n})
		if c.boxedVars[obj] {
			if s, named, isPtr := structOf(obj.Type()); s != nil && !isPtr && !opaqueNamed(named) {
				r := st.allocRef()
				fx.writeStructAt(st, r, obj.Type(), Val{T: n, S: srt, GT: obj.Type()})
				st.vars[obj] = r
				return
			}
			r := st.allocRef()
			key := "P:" + typeKey(obj.Type())
			hs := "(Array Int " + srt + ")"
			st.setHeap(key, hs, fmt.Sprintf("(store %s %s %s)", st.heap(key, hs), r, n))
			st.vars[obj] = r
			return
		}
		st.vars[obj] = n
	}
	if fi.Lit == nil && fi.Recv != nil && len(fi.Recv.List) > 0 && len(fi.Recv.List[0].Names) > 0 {
		obj := fi.Pkg.TypesInfo.Defs[fi.Recv.List[0].Names[0]]
		declParam(obj, true)
		fx.recv = obj
	}
	if fi.Type.Params != nil {
		for _, f := range fi.Type.Params.List {
			for _, n := range f.Names {
				declParam(fi.Pkg.TypesInfo.Defs[n], false)
			}
		}
	}
	rc := &retCtx{}
	if fi.Type.Results != nil {
		i := 0
		for _, f := range fi.Type.Results.List {
			if len(f.Names) == 0 {
				v := types.NewVar(fi.Body.Pos(), fi.Pkg.Types, fmt.Sprintf("$r%d", i), sig.Results().At(i).Type())
				rc.results = append(rc.results, v)
				st.vars[v] = c.zero(v.Type())
				i++
				continue
			}
			for _, n := range f.Names {
				obj := fi.Pkg.TypesInfo.Defs[n]
				if obj == nil {
					obj = types.NewVar(fi.Body.Pos(), fi.Pkg.Types, fmt.Sprintf("$r%d", i), sig.Results().At(i).Type())
				}
				rc.results = append(rc.results, obj)
				st.vars[obj] = c.zero(obj.Type())
				i++
			}
		}
	}
	fx.ret = []*retCtx{rc}
	fx.entry = st // specs evaluated at entry see this state; replaced by a snapshot below
	if fi.Lit != nil {
		// captured variables of the enclosing function(s) are inputs of the literal: one symbolic value each, fixed at entry
		seen := map[types.Object]bool{}
		ast.Inspect(fi.Lit.Body, func(n ast.Node) bool {
			id, ok := n.(*ast.Ident)
			if !ok {
				return true
			}
			v, ok := fi.Pkg.TypesInfo.Uses[id].(*types.Var)
			if !ok || v.IsField() || isGlobal(v) || seen[v] {
				return true
			}
			if v.Pos() >= fi.Lit.Pos() && v.Pos() <= fi.Lit.End() {
				return true // declared inside the literal
			}
			seen[v] = true
			fx.ensureVar(st, v)
			return true
		})
	}
	// requires
	if fi.Spec != nil {
		for _, r := range fi.Spec.Requires {
			env := fx.specEnv(st, st, fi.Body.Lbrace)
			st.assume(fx.specBool(env, r.Expr))
		}
	}
	if fi.Spec != nil {
		for _, u := range fi.Spec.Uses {
			fx.assumeLemma(st, fx.specEnv(st, st, fi.Body.Lbrace), u)
		}
		for _, ci := range fi.Spec.ClosureInv {
			st.assume(fx.specBool(fx.specEnv(st, st, fi.Body.Lbrace), ci.Expr))
		}
	}
	if fi.Spec == nil || fi.Spec.Flags["entrylocks"] == "" {
		// an activation starts holding no lock at all unless its contract says otherwise (flag entrylocks)
		st.assume(fmt.Sprintf("(= %s ((as const (Array Int Int)) 0))", st.heap("LK", "(Array Int Int)")))
	}
	fx.entry = st.clone()
	// vacuity: the precondition must be satisfiable
	vo := c.oblige(st, "vacuity", "requires", "true", "precondition is satisfiable", w.pos(fi.Body.Pos()))
	vo.Vacuity = true
	// tail statement: the last statement, or the one before a final bare `return`
	if n := len(fi.Body.List); n > 0 {
		last := fi.Body.List[n-1]
		if r, ok := last.(*ast.ReturnStmt); ok && len(r.Results) == 0 && n > 1 {
			last = fi.Body.List[n-2]
		}
		switch last.(type) {
		case *ast.ForStmt, *ast.RangeStmt:
			fx.tailStmt = last
		}
	}
	fx.execBlock(st, fi.Body.List)
	if !st.dead {
		fx.doReturn(st)
	}
	exit := mergeStates(c, rc.returns)
	if exit.dead {
		// no normal exit (infinite loop / always panics): posts hold vacuously
		res.Obligs = c.obligs
		fx.finishInputs()
		return
	}
	checkExit := func(exit *State, sfx string) {
		vx := c.oblige(exit, "vacuity", "exit"+sfx, "true", "some execution reaches the end of the function", w.pos(fi.Body.Rbrace))
		vx.Vacuity = true
		// locks taken by this activation are released on every exit
		for _, mu := range c.locks {
			if fi.Spec != nil && fi.Spec.Flags["lockeffect"] != "" {
				break // the contract states the lock effect explicitly (ensures held(...) == ...)
			}
			phi := fmt.Sprintf("(= (select %s %s) (select %s %s))", exit.heap("LK", "(Array Int Int)"), mu, fx.entry.heap("LK", "(Array Int Int)"), mu)
			c.oblige(exit, "lock-released", "exit("+lockName(mu)+")"+sfx, phi, "lock state at exit equals lock state at entry", w.pos(fi.Body.Rbrace))
		}
		if fi.Spec != nil && fi.Spec.ModSet {
			declared := map[string]string{}
			for _, m := range fi.Spec.Modifies {
				if strings.HasPrefix(m, "fresh ") {
					declared[strings.TrimSpace(strings.TrimPrefix(m, "fresh "))] = "fresh"
				} else {
					declared[m] = "any"
				}
			}
			if declared["*"] == "" {
				for _, k := range sortedKeys(c.heapSorts()) {
					srt := c.heapSorts()[k]
					he, hx := fx.entry.heap(k, srt), exit.heap(k, srt)
					if he == hx || k == "NC" || k == "NCT" || k == "CLB" || k == "CNT" || k == "CNC" || k == "LV" || k == "NRT" {
						continue
					}
					// writes to objects allocated by this activation are invisible to the caller: every undeclared heap
					// must be unchanged at each reference that existed at entry
					_ = fresherCells
					if objs := fi.Spec.ModObjs[k]; declared[k] == "any" && len(objs) > 0 {
						// only the named objects may change
						var ne []string
						for _, on := range objs {
							for _, in := range c.inputs {
								if in.Name == on {
									ne = append(ne, fmt.Sprintf("(not (= r!f %s))", in.Term))
								}
							}
						}
						phi := fmt.Sprintf("(forall ((r!f Int)) (=> (and (< 0 r!f) (<= r!f %s) %s) (= (select %s r!f) (select %s r!f))))", fx.entry.alloc, strings.Join(append(ne, "true"), " "), hx, he)
						c.oblige(exit, "frame", "only("+k+")"+sfx, phi, "frame: "+k+" changes only at the objects named in the modifies clause", w.pos(fi.Body.Rbrace))
						continue
					}
					if declared[k] == "any" {
						continue
					}
					if strings.HasPrefix(k, "F:") || strings.HasPrefix(k, "E:") || strings.HasPrefix(k, "P:") || strings.HasPrefix(k, "M") || strings.HasPrefix(k, "G:") || k == "CC" || k == "CP" || declared[k] == "fresh" {
						phi := fmt.Sprintf("(forall ((r!f Int)) (=> (and (< 0 r!f) (<= r!f %s)) (= (select %s r!f) (select %s r!f))))", fx.entry.alloc, hx, he)
						c.oblige(exit, "frame", "old("+k+")"+sfx, phi, "frame: "+k+" is not in the modifies clause: unchanged at every reference that existed at entry", w.pos(fi.Body.Rbrace))
						continue
					}
					c.oblige(exit, "frame", k+sfx, fmt.Sprintf("(= %s %s)", hx, he), "frame: "+k+" is not in the modifies clause and must be unchanged", w.pos(fi.Body.Rbrace))
				}
			}
		}
		if fi.Spec != nil && fi.Spec.Flags["emits"] == "opaque+calls" {
			ex, perr := parseSpecExpr("forall p int :: old(evlen) <= p && p < evlen ==> isOpaque(ev(p)) || isCall(ev(p))")
			if perr != nil {
				panic(perr)
			}
			phi := fx.specBool(fx.specEnv(exit, fx.entry, fi.Body.Lbrace), ex)
			c.oblige(exit, "post", "emits.opaque+calls"+sfx, phi, "emits only opaque events and interface-call events", w.pos(fi.Body.Rbrace))
		}
		if fi.Spec != nil && fi.Spec.Flags["emits"] == "opaque" {
			phi := fmt.Sprintf("(forall ((k!p Int)) (=> (and (<= %s k!p) (< k!p %s)) (>= (ev_kind (select %s k!p)) %d)))", fx.entry.evlen, exit.evlen, exit.evlog, evKinds["Other"])
			c.oblige(exit, "post", "emits.opaque"+sfx, phi, "emits only opaque events (of unknown callbacks)", w.pos(fi.Body.Rbrace))
		}
		if fi.Spec != nil && (len(fi.Spec.EmitsC) > 0 || fi.Spec.Flags["emits"] == "none") {
			// the function's events are exactly the declared list
			n := len(fi.Spec.EmitsC)
			c.oblige(exit, "post", "emits.count"+sfx, fmt.Sprintf("(= %s (+ %s %d))", exit.evlen, fx.entry.evlen, n), fmt.Sprintf("emits exactly %d events", n), w.pos(fi.Body.Rbrace))
			for k, ec := range fi.Spec.EmitsC {
				env := fx.specEnv(exit, fx.entry, fi.Body.Lbrace)
				env.bound = fx.resultBindings(exit, rc)
				fx.bindParamsFromEntry(env, fi)
				if fx.recv != nil {
					if t, ok := fx.entry.vars[fx.recv]; ok {
						env.bound["this"] = Val{T: t, S: c.sortOf(fx.recv.Type()), GT: fx.recv.Type()}
					}
				}
				ev := fx.specEval(env, ec.Expr)
				c.oblige(exit, "post", fmt.Sprintf("emits.%d", k+1)+sfx, fmt.Sprintf("(= (select %s (+ %s %d)) %s)", exit.evlog, fx.entry.evlen, k, ev.T), "emits "+ec.Text, w.pos(fi.Body.Rbrace))
			}
		}
		if fi.Spec != nil {
			for k, ci := range fi.Spec.ClosureInv {
				// evaluated over the captured variables as they are now (no old(): it is a state invariant)
				env := fx.specEnv(exit, exit, fi.Body.Lbrace)
				c.oblige(exit, "closure-inv", clauseAnchor("kept", ci, k)+sfx, fx.specBool(env, ci.Expr), ci.Text, w.pos(fi.Body.Rbrace))
			}
			for _, lu := range fi.Spec.UsesAt {
				env := fx.specEnv(exit, fx.entry, fi.Body.Lbrace)
				env.bound = fx.resultBindings(exit, rc)
				fx.bindParamsFromEntry(env, fi)
				fx.assumeLemmaAt(exit, env, lu)
			}
			for k, e := range fi.Spec.Ensures {
				env := fx.specEnv(exit, fx.entry, fi.Body.Lbrace)
				env.bound = fx.resultBindings(exit, rc)
				// parameters in postconditions denote their entry values
				fx.bindParamsFromEntry(env, fi)
				anchor := fmt.Sprintf("E%d", k+1)
				if e.Name != "" {
					anchor = e.Name
				}
				parts := splitConj(e.Expr)
				for pi, pe := range parts {
					a := anchor
					if len(parts) > 1 {
						a = fmt.Sprintf("%s.c%d", anchor, pi+1)
					}
					c.oblige(exit, "post", a+sfx, fx.specBool(env, pe), e.Text, w.pos(fi.Body.Rbrace))
				}
			}
		}
	}
	// postconditions are checked per return site when there are few (smaller queries, the failing exit is named);
	// on the merged exit state otherwise
	var live []*State
	for _, r := range rc.returns {
		if r != nil && !r.dead {
			live = append(live, r)
		}
	}
	if pathMode {
		for _, r := range live {
			checkExit(r, "")
		}
	} else if len(live) > 1 && len(live) <= 8 && fi.Spec != nil {
		for i, r := range live {
			checkExit(r, fmt.Sprintf(".ret%d", i+1))
		}
	} else {
		checkExit(exit, "")
	}
	res.Obligs = c.obligs
	fx.finishInputs()
	return
}

// cells of boxed locals are always fresh
func fresherCells(k string) bool { return true }

func lockName(mu string) string {
	return strings.NewReplacer("!", "_").Replace(mu)
}

func (fx *Fx) finishInputs() {
	for _, o := range fx.c.obligs {
		o.Inputs = fx.c.inputs
	}
}

func (fx *Fx) resultBindings(st *State, rc *retCtx) map[string]Val {
	b := map[string]Val{}
	for i, r := range rc.results {
		v := Val{T: st.vars[r], S: fx.c.sortOf(r.Type()), GT: r.Type()}
		b[fmt.Sprintf("result%d", i)] = v
		if i == 0 {
			b["result"] = v
		}
		if !strings.HasPrefix(r.Name(), "$") {
			b[r.Name()] = v
		}
	}
	if fx.fi != nil {
		fx.w.aliasRecordedNames(fx.fi.Key, b)
	}
	return b
}

func (fx *Fx) bindParamsFromEntry(env *SpecEnv, fi *FuncInfo) {
	bind := func(obj types.Object) {
		if obj == nil {
			return
		}
		if fx.c.boxedVars[obj] {
			return
		}
		if t, ok := fx.entry.vars[obj]; ok {
			env.bound[obj.Name()] = Val{T: t, S: fx.c.sortOf(obj.Type()), GT: obj.Type()}
		}
	}
	if fx.recv != nil {
		bind(fx.recv)
	}
	if fi.Type.Params != nil {
		for _, f := range fi.Type.Params.List {
			for _, n := range f.Names {
				bind(fi.Pkg.TypesInfo.Defs[n])
			}
		}
	}
	fx.w.aliasRecordedNames(fi.Key, env.bound)
}

func shortKey(key string) string {
	k := strings.Index(key, "|")
	return shortPkg(key[:k]) + "." + key[k+1:]
}

// ---------------------------------------------------------------------------
// lemmas

func (w *World) verifyLemma(l *Lemma) (res *FuncResult) {
	res = &FuncResult{Key: l.PkgPath + "|lemma:" + l.Name, HasSpec: true}
	c := newCtx(w, shortPkg(l.PkgPath)+".lemma."+l.Name)
	c.props = l.Props
	c.boxedVars = map[types.Object]bool{}
	c.interior = map[string]*Loc{}
	pkg := w.Pkgs[l.PkgPath]
	if pkg == nil {
		for _, p := range w.Pkgs {
			pkg = p
			break
		}
	}
	fx := &Fx{c: c, w: w, pkg: pkg, info: pkg.TypesInfo}
	defer func() {
		if r := recover(); r != nil {
			switch e := r.(type) {
			case specErr:
				res.Err = e.Error()
			case unsupported:
				res.Err = e.Error()
			default:
				panic(r)
			}
			res.Obligs = nil
		}
	}()
	if l.Axiom {
		return res
	}
	mk := func() (*State, *SpecEnv) {
		st := newState(c)
		fx.entry = st
		fx.emitAxioms(st)
		env := &SpecEnv{fx: fx, st: st, old: st, bound: map[string]Val{}, pkg: pkg}
		for _, p := range l.Params {
			srt, gt := env.sortOfName(p.Type)
			n := c.freshConst("lp_"+p.Name, srt)
			if gt != nil {
				if ra := c.rangeAssume(n, gt); ra != "" {
					st.assume(ra)
				}
			}
			env.bound[p.Name] = Val{T: n, S: srt, GT: gt}
			c.inputs = append(c.inputs, ModelVar{Name: p.Name, Term: n})
		}
		return st, env
	}
	useLemmas := func(st *State, env *SpecEnv) {
		for _, u := range l.Uses {
			fx.assumeLemma(st, env, u)
		}
		for _, lu := range l.UsesAt {
			fx.assumeLemmaAt(st, env, lu)
		}
	}
	if l.Induct == "" {
		st, env := mk()
		useLemmas(st, env)
		for _, r := range l.Requires {
			st.assume(fx.specBool(env, r.Expr))
		}
		vq := c.oblige(st, "vacuity", "requires", "true", "the hypotheses of the lemma are satisfiable", token.Position{Filename: l.File, Line: l.Line})
		vq.Vacuity = true
		for k, e := range l.Ensures {
			phi := fx.specBool(env, e.Expr)
			c.oblige(st, "lemma", clauseAnchor("L", e, k), phi, e.Text, token.Position{Filename: l.File, Line: e.Line})
		}
	} else {
		// induction on a natural-number parameter: base (k == 0) and step (k-1 ==> k)
		st, env := mk()
		useLemmas(st, env)
		kv := env.bound[l.Induct]
		if kv.T == "" {
			sfail("lemma %s: induction variable %s is not a parameter", l.Name, l.Induct)
		}
		// base
		b := st.clone()
		b.assume(fmt.Sprintf("(= %s 0)", kv.T))
		benv := *env
		benv.st, benv.old = b, b
		for _, r := range l.Requires {
			b.assume(fx.specBool(&benv, r.Expr))
		}
		for k, e := range l.Ensures {
			c.oblige(b, "lemma-base", clauseAnchor("L", e, k), fx.specBool(&benv, e.Expr), e.Text, token.Position{Filename: l.File, Line: e.Line})
		}
		// step: hypothesis for k-1 (all other parameters universally quantified is not needed: same parameters)
		s := st.clone()
		s.assume(fmt.Sprintf("(> %s 0)", kv.T))
		senv := *env
		senv.st, senv.old = s, s
		henv := senv
		henv.bound = map[string]Val{}
		for k, v := range env.bound {
			henv.bound[k] = v
		}
		henv.bound[l.Induct] = Val{T: fmt.Sprintf("(- %s 1)", kv.T), S: kv.S, GT: kv.GT}
		var hreq, hens []string
		for _, r := range l.Requires {
			hreq = append(hreq, fx.specBool(&henv, r.Expr))
		}
		for _, e := range l.Ensures {
			hens = append(hens, fx.specBool(&henv, e.Expr))
		}
		hyp := "(and " + strings.Join(append(hens, "true"), " ") + ")"
		if len(hreq) > 0 {
			hyp = fmt.Sprintf("(=> (and %s) %s)", strings.Join(hreq, " "), hyp)
		}
		s.assume(hyp)
		for _, r := range l.Requires {
			s.assume(fx.specBool(&senv, r.Expr))
		}
		vq := c.oblige(s, "vacuity", "step", "true", "the hypotheses of the induction step are satisfiable", token.Position{Filename: l.File, Line: l.Line})
		vq.Vacuity = true
		for k, e := range l.Ensures {
			c.oblige(s, "lemma-step", clauseAnchor("L", e, k), fx.specBool(&senv, e.Expr), e.Text, token.Position{Filename: l.File, Line: e.Line})
		}
	}
	res.Obligs = c.obligs
	for _, o := range c.obligs {
		o.Inputs = c.inputs
	}
	return res
}

// assumeLemma adds a proved lemma as a universally quantified fact.
func (fx *Fx) assumeLemma(st *State, env *SpecEnv, name string) {
	fx.assumeLemmaAt(st, env, &LemmaUse{Name: name})
}

// assumeLemmaAt: the lemma with some parameters instantiated (evaluated in env), the others universally quantified.
func (fx *Fx) assumeLemmaAt(st *State, env *SpecEnv, lu *LemmaUse) {
	name := lu.Name
	l, ok := fx.w.Lemmas[name]
	if !ok {
		sfail("unknown lemma %q", name)
	}
	n := &SpecEnv{fx: fx, st: env.st, old: env.old, bound: map[string]Val{}, pkg: fx.w.Pkgs[l.PkgPath], qdepth: 50}
	if n.pkg == nil {
		n.pkg = env.pkg
	}
	var decls []string
	seen := map[string]bool{}
	for _, p := range l.Params {
		srt, gt := env.sortOfName(p.Type)
		if ae, ok := lu.Args[p.Name]; ok {
			seen[p.Name] = true
			v := fx.specEval(env, ae)
			if v.S != srt {
				sfail("use lemma %s: argument %s has sort %s, parameter wants %s", name, p.Name, v.S, srt)
			}
			n.bound[p.Name] = Val{T: fx.c.define("la", srt, v.T), S: srt, GT: gt}
			continue
		}
		pn := p.Name + "!L"
		decls = append(decls, fmt.Sprintf("(%s %s)", pn, srt))
		n.bound[p.Name] = Val{T: pn, S: srt, GT: gt}
	}
	for a := range lu.Args {
		if !seen[a] {
			sfail("use lemma %s: no parameter %s", name, a)
		}
	}
	var reqs, ens []string
	if l.Induct != "" {
		// proved by induction from 0 upwards: that is all it says
		reqs = append(reqs, fmt.Sprintf("(>= %s 0)", n.bound[l.Induct].T))
	}
	for _, r := range l.Requires {
		reqs = append(reqs, fx.specBool(n, r.Expr))
	}
	for _, e := range l.Ensures {
		ens = append(ens, fx.specBool(n, e.Expr))
	}
	body := "(and " + strings.Join(append(ens, "true"), " ") + ")"
	if len(reqs) > 0 {
		body = fmt.Sprintf("(=> (and %s) %s)", strings.Join(reqs, " "), body)
	}
	if len(decls) > 0 {
		if len(l.Patterns) > 0 {
			// pattern terms that mention every parameter still quantified are alternative patterns on their own;
			// otherwise the terms mentioning some of them form one multi-pattern
			var qv []string
			for _, d := range decls {
				qv = append(qv, strings.Fields(strings.Trim(d, "()"))[0])
			}
			mentions := func(t, v string) bool {
				for _, tok := range strings.FieldsFunc(t, func(r rune) bool { return r == '(' || r == ')' || r == ' ' }) {
					if tok == v {
						return true
					}
				}
				return false
			}
			var full, some []string
			for _, pe := range l.Patterns {
				t := fx.specEval(n, pe).T
				cnt := 0
				for _, v := range qv {
					if mentions(t, v) {
						cnt++
					}
				}
				if cnt == len(qv) {
					full = append(full, t)
				} else if cnt > 0 {
					some = append(some, t)
				}
			}
			switch {
			case len(full) > 0:
				var ps []string
				for _, t := range full {
					ps = append(ps, ":pattern ("+t+")")
				}
				body = fmt.Sprintf("(! %s %s)", body, strings.Join(ps, " "))
			case len(some) > 0:
				body = fmt.Sprintf("(! %s :pattern (%s))", body, strings.Join(some, " "))
			}
		}
		body = fmt.Sprintf("(forall (%s) %s)", strings.Join(decls, " "), body)
	}
	st.assume(body)
}

func sortedKeys[V any](m map[string]V) []string {
	ks := make([]string, 0, len(m))
	for k := range m {
		ks = append(ks, k)
	}
	sort.Strings(ks)
	return ks
}

// resolveModifies turns the entries of a modifies clause into heap keys:
//
//	x.f (field of a parameter/receiver), T.f (field of a named struct type), elems(T) (elements of slices of T... written as the slice type),
//	cells(T), mapof(T), raw keys (F:/E:/P:/MD:/...), "fresh <entry>".
func (w *World) resolveModifies(sp *FuncSpec) error {
	if sp.modsResolved {
		return nil
	}
	sp.modsResolved = true
	pkg := w.Pkgs[sp.PkgPath]
	fi := w.Funcs[sp.Key]
	var out []string
	for _, m := range sp.Modifies {
		fresh := ""
		if strings.HasPrefix(m, "fresh ") {
			fresh = "fresh "
			m = strings.TrimSpace(strings.TrimPrefix(m, "fresh "))
		}
		keys, err := w.resolveModEntry(pkg, fi, m)
		if err != nil {
			return fmt.Errorf("%s:%d: modifies %s: %v", sp.File, sp.Line, m, err)
		}
		for _, k := range keys {
			out = append(out, fresh+k)
			if fresh != "" {
				continue
			}
			if sp.ModObjs == nil {
				sp.ModObjs = map[string][]string{}
			}
			if obj := w.modObjectOf(fi, m); obj != "" {
				if cur, seen := sp.ModObjs[k]; !seen || len(cur) > 0 {
					sp.ModObjs[k] = append(sp.ModObjs[k], obj)
				}
			} else {
				sp.ModObjs[k] = []string{} // some entry names the whole heap
			}
		}
	}
	sp.Modifies = out
	return nil
}

// modObjectOf: for an entry "x.f" where x is the receiver or a pointer parameter, the name x.
func (w *World) modObjectOf(fi *FuncInfo, m string) string {
	k := strings.LastIndex(m, ".")
	if k < 0 || strings.ContainsAny(m, ":(") || fi == nil {
		return ""
	}
	base := m[:k]
	if strings.Contains(base, ".") {
		return ""
	}
	if c, ok := w.renamesOf(fi)[base]; ok {
		base = c
	}
	var sig *types.Signature
	if fi.Obj != nil {
		sig = fi.Obj.Type().(*types.Signature)
	} else if fi.Lit != nil {
		sig, _ = fi.Pkg.TypesInfo.TypeOf(fi.Lit).(*types.Signature)
	}
	if sig == nil {
		return ""
	}
	isPtr := func(t types.Type) bool {
		_, ok := types.Unalias(t).Underlying().(*types.Pointer)
		return ok
	}
	if r := sig.Recv(); r != nil && r.Name() == base && isPtr(r.Type()) {
		return base
	}
	for i := 0; i < sig.Params().Len(); i++ {
		if p := sig.Params().At(i); p.Name() == base && isPtr(p.Type()) {
			return base
		}
	}
	return ""
}

func (w *World) resolveModEntry(pkg *packages.Package, fi *FuncInfo, m string) ([]string, error) {
	if m == "*" || strings.Contains(m, ":") {
		return []string{m}, nil
	}
	typeOf := func(name string) (types.Type, error) {
		if pkg == nil {
			return nil, fmt.Errorf("no package to resolve %q", name)
		}
		if k := strings.LastIndex(name, "."); k > 0 && !strings.ContainsAny(name, "[]( ") {
			q := strings.TrimPrefix(name[:k], "*")
			for _, p := range w.allPackages() {
				if p.Name() == q {
					if tn, ok := p.Scope().Lookup(name[k+1:]).(*types.TypeName); ok {
						return tn.Type(), nil
					}
				}
			}
		}
		pos := token.NoPos
		if fi != nil {
			pos = fi.Body.Lbrace
		}
		tv, err := types.Eval(w.Fset, pkg.Types, pos, name)
		if err != nil || !tv.IsType() {
			return nil, fmt.Errorf("unknown type %q", name)
		}
		return tv.Type, nil
	}
	for _, fn := range []string{"elems", "cells", "mapof"} {
		if strings.HasPrefix(m, fn+"(") && strings.HasSuffix(m, ")") {
			t, err := typeOf(m[len(fn)+1 : len(m)-1])
			if err != nil {
				return nil, err
			}
			switch fn {
			case "elems":
				sl, ok := types.Unalias(t).Underlying().(*types.Slice)
				if !ok {
					return nil, fmt.Errorf("elems() needs a slice type")
				}
				return []string{"E:" + typeKey(sl.Elem())}, nil
			case "cells":
				return []string{"P:" + typeKey(t)}, nil
			default:
				return []string{"MD:" + typeKey(t), "MV:" + typeKey(t), "MC:" + typeKey(t)}, nil
			}
		}
	}
	k := strings.LastIndex(m, ".")
	if k < 0 {
		return nil, fmt.Errorf("cannot resolve")
	}
	base, field := m[:k], m[k+1:]
	if fi != nil {
		if c, ok := w.renamesOf(fi)[base]; ok {
			base = c
		}
	}
	var bt types.Type
	// parameter / receiver name?
	if fi != nil {
		var sig *types.Signature
		if fi.Obj != nil {
			sig = fi.Obj.Type().(*types.Signature)
		} else if fi.Lit != nil {
			sig, _ = fi.Pkg.TypesInfo.TypeOf(fi.Lit).(*types.Signature)
		}
		if sig != nil {
			if r := sig.Recv(); r != nil && r.Name() == base {
				bt = r.Type()
			}
			for i := 0; i < sig.Params().Len(); i++ {
				if sig.Params().At(i).Name() == base {
					bt = sig.Params().At(i).Type()
				}
			}
			for i := 0; i < sig.Results().Len(); i++ {
				if sig.Results().At(i).Name() == base {
					bt = sig.Results().At(i).Type()
				}
			}
		}
	}
	if bt == nil {
		t, err := typeOf(base)
		if err != nil {
			return nil, err
		}
		bt = t
	}
	obj, index, _ := types.LookupFieldOrMethod(bt, true, pkg.Types, field)
	if _, ok := obj.(*types.Var); !ok {
		return nil, fmt.Errorf("no field %s in %s", field, bt)
	}
	cur := bt
	key := ""
	for _, idx := range index {
		s, named, _ := structOf(cur)
		if s == nil {
			return nil, fmt.Errorf("field path through %s", cur)
		}
		key = fieldKey(named, s.Field(idx).Name())
		cur = s.Field(idx).Type()
	}
	return []string{key}, nil
}

// emitAxioms states the axioms of the contract files (assumed facts about uninterpreted functions).
func (fx *Fx) emitAxioms(st *State) {
	for _, ax := range fx.w.Axioms {
		func() {
			defer func() { recover() }()
			env := &SpecEnv{fx: fx, st: st, old: st, bound: map[string]Val{}, pkg: fx.pkg}
			fx.c.lazyAxioms = append(fx.c.lazyAxioms, fx.specBool(env, ax.Expr))
		}()
	}
}

func sortedLoopOrds(m map[int]*LoopSpec) []int {
	var ks []int
	for k := range m {
		ks = append(ks, k)
	}
	sort.Ints(ks)
	return ks
}
