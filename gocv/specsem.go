package main

// Translation of contract expressions to SMT in a symbolic state.

import (
	"fmt"
	"go/ast"
	"go/token"
	"go/types"
	"strings"

	"golang.org/x/tools/go/packages"
)

type SpecEnv struct {
	fx        *Fx
	st        *State
	old       *State
	bound     map[string]Val
	pos       token.Pos // scope position for identifier lookup
	pkg       *packages.Package
	qdepth    int
	inOld     bool
	resultIdx int
	label     map[string]*State
}

type specErr struct{ msg string }

func (e specErr) Error() string { return "contract: " + e.msg }

func sfail(f string, a ...any) { panic(specErr{fmt.Sprintf(f, a...)}) }

func (fx *Fx) specEnv(st, old *State, pos token.Pos) *SpecEnv {
	return &SpecEnv{fx: fx, st: st, old: old, bound: map[string]Val{}, pos: pos, pkg: fx.pkg}
}

func (env *SpecEnv) with(name string, v Val) *SpecEnv {
	n := *env
	n.bound = make(map[string]Val, len(env.bound)+1)
	for k, x := range env.bound {
		n.bound[k] = x
	}
	n.bound[name] = v
	return &n
}

func (fx *Fx) specBool(env *SpecEnv, e SExpr) string {
	v := fx.specEval(env, e)
	if v.S != "Bool" {
		sfail("boolean expected, got %s for %s", v.S, sexprString(e))
	}
	return v.T
}

func (env *SpecEnv) state() *State {
	if env.inOld {
		return env.old
	}
	return env.st
}

func (env *SpecEnv) typeOf(name string) types.Type {
	switch name {
	case "int":
		return types.Typ[types.Int]
	case "bool":
		return types.Typ[types.Bool]
	case "string":
		return types.Typ[types.String]
	case "float64":
		return types.Typ[types.Float64]
	case "uint":
		return types.Typ[types.Uint]
	case "any":
		return types.NewInterfaceType(nil, nil)
	}
	pkg := env.pkg
	if pkg == nil {
		pkg = env.fx.pkg
	}
	// qualified names may refer to any loaded package by its name
	if k := strings.LastIndex(name, "."); k > 0 && !strings.HasPrefix(name, "[") {
		star := strings.HasPrefix(name, "*")
		q := strings.TrimPrefix(name[:k], "*")
		for _, p := range env.fx.w.allPackages() {
			if p.Name() == q || p.Path() == q {
				if o := p.Scope().Lookup(name[k+1:]); o != nil {
					if tn, ok := o.(*types.TypeName); ok {
						if star {
							return types.NewPointer(tn.Type())
						}
						return tn.Type()
					}
				}
			}
		}
	}
	tv, err := types.Eval(env.fx.w.Fset, pkg.Types, token.NoPos, name)
	if err == nil && tv.IsType() {
		return tv.Type
	}
	if env.pos.IsValid() {
		if tv, err := types.Eval(env.fx.w.Fset, pkg.Types, env.pos, name); err == nil && tv.IsType() {
			return tv.Type
		}
	}
	if env.fx.fi != nil && env.fx.fi.Pkg == pkg {
		if tv, err := types.Eval(env.fx.w.Fset, pkg.Types, env.fx.fi.Body.Lbrace, name); err == nil && tv.IsType() {
			return tv.Type
		}
	}
	// (*T)(nil) style for pointer types
	sfail("unknown type %q", name)
	return nil
}

func (w *World) allPackages() []*types.Package {
	if w.allPkgs != nil {
		return w.allPkgs
	}
	seen := map[*types.Package]bool{}
	var visit func(p *types.Package)
	visit = func(p *types.Package) {
		if seen[p] {
			return
		}
		seen[p] = true
		w.allPkgs = append(w.allPkgs, p)
		for _, i := range p.Imports() {
			visit(i)
		}
	}
	for _, p := range w.Pkgs {
		visit(p.Types)
	}
	return w.allPkgs
}

// raw SMT sorts may be used in spec function signatures
func (env *SpecEnv) sortOfName(name string) (string, types.Type) {
	switch name {
	case "Int", "Bool", "Real", "Str", "Iface", "Slice", "Ev":
		return name, nil
	}
	if strings.HasPrefix(name, "(") {
		return name, nil
	}
	t := env.typeOf(name)
	return env.fx.c.sortOf(t), t
}

func (fx *Fx) specEval(env *SpecEnv, e SExpr) Val {
	c := fx.c
	boolT := types.Typ[types.Bool]
	_ = types.Typ[types.Int]
	switch e := e.(type) {
	case *SInt:
		if strings.Contains(e.V, ".") {
			return Val{T: e.V, S: "Real", GT: types.Typ[types.Float64]}
		}
		return Val{T: e.V, S: "Int", GT: types.Typ[types.UntypedInt]}
	case *SBool:
		if e.V {
			return Val{T: "true", S: "Bool", GT: boolT}
		}
		return Val{T: "false", S: "Bool", GT: boolT}
	case *SStr:
		return Val{T: c.strLit(e.V), S: "Str", GT: types.Typ[types.String]}
	case *SNil:
		return Val{T: "0", S: "Int", GT: types.Typ[types.UntypedNil]}
	case *SIdent:
		return fx.specIdent(env, e.Name)
	case *SUnary:
		x := fx.specEval(env, e.X)
		switch e.Op {
		case "!":
			return Val{T: "(not " + x.T + ")", S: "Bool", GT: boolT}
		case "-":
			return Val{T: "(- " + x.T + ")", S: x.S, GT: x.GT}
		case "*":
			pt, ok := types.Unalias(x.GT).Underlying().(*types.Pointer)
			if !ok {
				sfail("dereference of non-pointer in %s", sexprString(e))
			}
			st := env.state()
			if loc, ok := c.interior[x.T]; ok {
				return fx.pureReadLoc(st, loc)
			}
			if s, named, _ := structOf(pt.Elem()); s != nil && !opaqueNamed(named) {
				return fx.readStructAt(st, x.T, pt.Elem())
			}
			srt := c.sortOf(pt.Elem())
			h := st.heap("P:"+typeKey(pt.Elem()), "(Array Int "+srt+")")
			return Val{T: fmt.Sprintf("(select %s %s)", h, x.T), S: srt, GT: pt.Elem()}
		}
	case *SBinary:
		switch e.Op {
		case "&&", "||", "==>", "<==>":
			l, r := fx.specBool(env, e.X), fx.specBool(env, e.Y)
			op := map[string]string{"&&": "and", "||": "or", "==>": "=>", "<==>": "="}[e.Op]
			return Val{T: fmt.Sprintf("(%s %s %s)", op, l, r), S: "Bool", GT: boolT}
		}
		l, r := fx.specEval(env, e.X), fx.specEval(env, e.Y)
		switch e.Op {
		case "==":
			return Val{T: fx.specEq(env, l, r), S: "Bool", GT: boolT}
		case "!=":
			return Val{T: "(not " + fx.specEq(env, l, r) + ")", S: "Bool", GT: boolT}
		case "<", "<=", ">", ">=":
			l, r = numUnify(l, r)
			return Val{T: fmt.Sprintf("(%s %s %s)", e.Op, l.T, r.T), S: "Bool", GT: boolT}
		case "+", "-", "*":
			if l.S == "Str" && e.Op == "+" {
				return Val{T: fmt.Sprintf("(str_concat %s %s)", l.T, r.T), S: "Str", GT: l.GT}
			}
			l, r = numUnify(l, r)
			gt := l.GT
			if isUntyped(gt) {
				gt = r.GT
			}
			return Val{T: fmt.Sprintf("(%s %s %s)", e.Op, l.T, r.T), S: l.S, GT: gt}
		case "/":
			l, r = numUnify(l, r)
			if l.S == "Real" {
				return Val{T: fmt.Sprintf("(/ %s %s)", l.T, r.T), S: "Real", GT: l.GT}
			}
			return Val{T: fmt.Sprintf("(div %s %s)", l.T, r.T), S: "Int", GT: l.GT}
		case "%":
			return Val{T: fmt.Sprintf("(mod %s %s)", l.T, r.T), S: "Int", GT: l.GT}
		}
	case *SCond:
		cnd := fx.specBool(env, e.C)
		a, b := fx.specEval(env, e.A), fx.specEval(env, e.B)
		a, b = fx.specUnify(env, a, b)
		return Val{T: fmt.Sprintf("(ite %s %s %s)", cnd, a.T, b.T), S: a.S, GT: a.GT}
	case *SLet:
		v := fx.specEval(env, e.Val)
		return fx.specEval(env.with(e.Name, v), e.Body)
	case *SQuant:
		n := env
		var decls []string
		var guards []string
		for _, v := range e.Vars {
			srt, gt := env.sortOfName(v.Type)
			name := fmt.Sprintf("%s!q%d", v.Name, env.qdepth)
			decls = append(decls, fmt.Sprintf("(%s %s)", name, srt))
			n = n.with(v.Name, Val{T: name, S: srt, GT: gt})
			if gt != nil {
				if ra := c.rangeAssume(name, gt); ra != "" && srt != "Int" {
					guards = append(guards, ra)
				}
			}
		}
		n.qdepth = env.qdepth + 1
		body := fx.specBool(n, e.Body)
		if pat := fx.autoPattern(n, e); pat != "" {
			body = fmt.Sprintf("(! %s :pattern (%s))", body, pat)
		}
		q := "exists"
		if e.Forall {
			q = "forall"
			if len(guards) > 0 {
				body = fmt.Sprintf("(=> (and %s) %s)", strings.Join(guards, " "), body)
			}
		} else if len(guards) > 0 {
			body = fmt.Sprintf("(and %s %s)", strings.Join(guards, " "), body)
		}
		return Val{T: fmt.Sprintf("(%s (%s) %s)", q, strings.Join(decls, " "), body), S: "Bool", GT: boolT}
	case *SSelector:
		// package-qualified constant?
		if id, ok := e.X.(*SIdent); ok {
			if _, bound := env.bound[id.Name]; !bound {
				if v, ok := fx.specQualified(env, id.Name, e.Sel); ok {
					return v
				}
			}
		}
		x := fx.specEval(env, e.X)
		return fx.specField(env, x, e.Sel)
	case *SIndex:
		x := fx.specEval(env, e.X)
		i := fx.specEval(env, e.I)
		st := env.state()
		if x.GT == nil {
			if strings.HasPrefix(x.S, "(Array") {
				return Val{T: fmt.Sprintf("(select %s %s)", x.T, i.T), S: arrayElemSort(x.S)}
			}
			sfail("index on %s", x.S)
		}
		switch u := types.Unalias(x.GT).Underlying().(type) {
		case *types.Slice:
			es := c.sortOf(u.Elem())
			h := st.heap("E:"+typeKey(u.Elem()), "(Array Int (Array Int "+es+"))")
			return Val{T: fmt.Sprintf("(select (select %s (s_base %s)) (+ (s_off %s) %s))", h, x.T, x.T, i.T), S: es, GT: u.Elem()}
		case *types.Map:
			ks, vs := c.sortOf(u.Key()), c.sortOf(u.Elem())
			key := typeKey(x.GT)
			hd := st.heap("MD:"+key, "(Array Int (Array "+ks+" Bool))")
			hv := st.heap("MV:"+key, "(Array Int (Array "+ks+" "+vs+"))")
			i = fx.specConv(env, i, u.Key())
			return Val{T: fmt.Sprintf("(ite (select (select %s %s) %s) (select (select %s %s) %s) %s)", hd, x.T, i.T, hv, x.T, i.T, c.zero(u.Elem())), S: vs, GT: u.Elem()}
		case *types.Array:
			return Val{T: fmt.Sprintf("(select %s %s)", x.T, i.T), S: c.sortOf(u.Elem()), GT: u.Elem()}
		}
		sfail("index on %s", x.GT)
	case *SSliceE:
		x := fx.specEval(env, e.X)
		if x.S != "Slice" {
			sfail("slice expression on %s", x.S)
		}
		lo, hi := "0", "(s_len "+x.T+")"
		if e.Lo != nil {
			lo = fx.specEval(env, e.Lo).T
		}
		if e.Hi != nil {
			hi = fx.specEval(env, e.Hi).T
		}
		return Val{T: fmt.Sprintf("(mkSlice (s_base %s) (+ (s_off %s) %s) (- %s %s) (- (s_cap %s) %s))", x.T, x.T, lo, hi, lo, x.T, lo), S: "Slice", GT: x.GT}
	case *STypeAssert:
		x := fx.specEval(env, e.X)
		t := env.typeOf(e.T)
		return fx.fromIface(env.state(), x, t)
	case *SCall:
		return fx.specCall(env, e)
	}
	sfail("cannot translate %s", sexprString(e))
	return Val{}
}

// autoPattern: a multi-pattern made of the terms in which a bound variable is used bare as an index
// (ev(p), m[k], heap(...)[r]); empty if these do not cover all bound variables.
func (fx *Fx) autoPattern(env *SpecEnv, q *SQuant) string {
	bound := map[string]bool{}
	for _, v := range q.Vars {
		bound[v.Name] = true
	}
	covered := map[string]bool{}
	var pats []string
	seen := map[string]bool{}
	add := func(v string, e SExpr) {
		defer func() { recover() }()
		t := fx.specEval(env, e)
		if !seen[t.T] {
			seen[t.T] = true
			pats = append(pats, t.T)
		}
		covered[v] = true
	}
	var walk func(x SExpr)
	walk = func(x SExpr) {
		switch x := x.(type) {
		case *SUnary:
			walk(x.X)
		case *SBinary:
			walk(x.X)
			walk(x.Y)
		case *SCall:
			if id, ok := x.Fun.(*SIdent); ok && id.Name == "ev" && len(x.Args) == 1 {
				if a, ok := x.Args[0].(*SIdent); ok && bound[a.Name] && !covered[a.Name] {
					add(a.Name, x)
				}
			}
			if id, ok := x.Fun.(*SIdent); ok && id.Name == "at" && len(x.Args) == 2 {
				if a, ok := x.Args[1].(*SIdent); ok && bound[a.Name] && !covered[a.Name] {
					add(a.Name, x)
				}
			}
			if id, ok := x.Fun.(*SIdent); ok && id.Name == "old" {
				return // triggers on the current state only
			}
			walk(x.Fun)
			for _, a := range x.Args {
				walk(a)
			}
		case *SSelector:
			walk(x.X)
		case *SIndex:
			if a, ok := x.I.(*SIdent); ok && bound[a.Name] && !covered[a.Name] {
				// bare index into a raw array or a map
				func() {
					defer func() { recover() }()
					b := fx.specEval(env, x.X)
					isMap := false
					if b.GT != nil {
						_, isMap = types.Unalias(b.GT).Underlying().(*types.Map)
					}
					if b.GT == nil && strings.HasPrefix(b.S, "(Array") {
						add(a.Name, x)
					} else if isMap {
						_ = isMap
					}
				}()
			}
			walk(x.X)
			walk(x.I)
		case *SSliceE:
			walk(x.X)
		case *SQuant:
			// inner quantifiers choose their own
		case *SCond:
			walk(x.C)
			walk(x.A)
			walk(x.B)
		case *SLet:
			walk(x.Val)
			walk(x.Body)
		case *STypeAssert:
			walk(x.X)
		}
	}
	walk(q.Body)
	for _, v := range q.Vars {
		if !covered[v.Name] {
			return ""
		}
	}
	return strings.Join(pats, " ")
}

func arrayElemSort(s string) string {
	// "(Array K V)" -> V
	s = strings.TrimSuffix(strings.TrimPrefix(s, "(Array "), ")")
	depth := 0
	for i, r := range s {
		switch r {
		case '(':
			depth++
		case ')':
			depth--
		case ' ':
			if depth == 0 {
				return s[i+1:]
			}
		}
	}
	return s
}

func isUntyped(t types.Type) bool {
	b, ok := t.(*types.Basic)
	return ok && b.Info()&types.IsUntyped != 0
}

func numUnify(l, r Val) (Val, Val) {
	if l.S == "Int" && r.S == "Real" {
		l = Val{T: "(to_real " + l.T + ")", S: "Real", GT: r.GT}
	}
	if l.S == "Real" && r.S == "Int" {
		r = Val{T: "(to_real " + r.T + ")", S: "Real", GT: l.GT}
	}
	return l, r
}

func (fx *Fx) specUnify(env *SpecEnv, a, b Val) (Val, Val) {
	if a.S == b.S {
		return a, b
	}
	a, b = numUnify(a, b)
	if a.S == b.S {
		return a, b
	}
	if a.S == "Iface" {
		return a, fx.specConv(env, b, a.GT)
	}
	if b.S == "Iface" {
		return fx.specConv(env, a, b.GT), b
	}
	if a.T == "0" && a.S == "Int" {
		return Val{T: fx.c.zeroOfSort(b.S), S: b.S, GT: b.GT}, b
	}
	if b.T == "0" && b.S == "Int" {
		return a, Val{T: fx.c.zeroOfSort(a.S), S: a.S, GT: a.GT}
	}
	sfail("cannot unify sorts %s and %s", a.S, b.S)
	return a, b
}

func (fx *Fx) specConv(env *SpecEnv, v Val, t types.Type) Val {
	if t == nil {
		if v.S != "Iface" {
			return Val{T: fx.specBox(env, v), S: "Iface"}
		}
		return v
	}
	if _, toIface := types.Unalias(t).Underlying().(*types.Interface); toIface && v.S != "Iface" {
		if isUntyped(v.GT) {
			if b := v.GT.(*types.Basic); b.Kind() == types.UntypedNil {
				return Val{T: "(mkIface 0 0)", S: "Iface", GT: t}
			}
			v.GT = types.Default(v.GT)
		}
		return Val{T: fx.specBox(env, v), S: "Iface", GT: t}
	}
	return fx.convertTo(env.state(), v, t)
}

// specBox boxes without introducing definitions (terms may contain bound variables).
func (fx *Fx) specBox(env *SpecEnv, v Val) string {
	c := fx.c
	if v.S == "Iface" {
		return v.T
	}
	tag := 0
	if v.GT != nil {
		if b, ok := v.GT.(*types.Basic); ok && b.Kind() == types.UntypedNil {
			return "(mkIface 0 0)"
		}
		tag = c.typeTag(v.GT)
	}
	if v.S == "Int" {
		return fmt.Sprintf("(mkIface %d %s)", tag, v.T)
	}
	bn, un := c.boxFns(v.S)
	c.axiomOnce("boxinj:"+v.S, fmt.Sprintf("(forall ((x!b %s)) (! (= (%s (%s x!b)) x!b) :pattern ((%s x!b))))", v.S, un, bn, bn))
	return fmt.Sprintf("(mkIface %d (%s %s))", tag, bn, v.T)
}

func (fx *Fx) specEq(env *SpecEnv, l, r Val) string {
	l, r = fx.specUnify(env, l, r)
	return fx.eqTerm(env.state(), l, r)
}

func (fx *Fx) specIdent(env *SpecEnv, name string) Val {
	c := fx.c
	if v, ok := env.bound[name]; ok {
		return v
	}
	st := env.state()
	switch name {
	case "evlen":
		return Val{T: st.evlen, S: "Int", GT: types.Typ[types.Int]}
	case "evlog":
		return Val{T: st.evlog, S: "(Array Int Ev)"}
	case "alloc":
		return Val{T: st.alloc, S: "Int", GT: types.Typ[types.Int]}
	case "Δlen":
		return Val{T: fmt.Sprintf("(- %s %s)", env.st.evlen, env.old.evlen), S: "Int", GT: types.Typ[types.Int]}
	}
	if strings.HasPrefix(name, "rk") {
		// rk<N>: the hidden iteration counter of range loop N (0-based number of completed iterations)
		if g, ok := st.ghost[name]; ok {
			return Val{T: g, S: "Int", GT: types.Typ[types.Int]}
		}
		if cl, ok := fx.countLoops[name]; ok {
			if cur, ok := st.vars[cl.obj]; ok {
				return Val{T: fmt.Sprintf("(- %s %s)", cur, cl.init), S: "Int", GT: types.Typ[types.Int]}
			}
		}
	}
	if g, ok := st.ghost["g:"+name]; ok {
		return Val{T: g, S: "Int", GT: types.Typ[types.Int]}
	}
	if g, ok := st.ghost["b:"+name]; ok {
		return Val{T: g, S: "Bool", GT: types.Typ[types.Bool]}
	}
	// program scope
	name = fx.renamed(name)
	pkg := env.pkg
	if pkg == nil {
		pkg = fx.pkg
	}
	var obj types.Object
	if env.pos.IsValid() && pkg.Types != nil {
		if sc := pkg.Types.Scope().Innermost(env.pos); sc != nil {
			_, obj = sc.LookupParent(name, env.pos)
		}
	}
	if obj == nil && pkg.Types != nil {
		obj = pkg.Types.Scope().Lookup(name)
	}
	if obj == nil {
		obj = types.Universe.Lookup(name)
	}
	switch o := obj.(type) {
	case *types.Var:
		if isGlobal(o) {
			srt := c.sortOf(o.Type())
			h := st.heap("GV:"+o.Pkg().Name()+"."+o.Name(), "(Array Int "+srt+")")
			return Val{T: fmt.Sprintf("(select %s 0)", h), S: srt, GT: o.Type()}
		}
		t, ok := st.vars[o]
		if !ok && env.old != nil {
			t, ok = env.old.vars[o]
		}
		if !ok && fx.entry != nil {
			t, ok = fx.entry.vars[o]
		}
		if !ok && fx.fi != nil && fx.fi.Lit != nil && (o.Pos() < fx.fi.Lit.Pos() || o.Pos() > fx.fi.Lit.End()) {
			// captured variable of the enclosing function: a free input of the literal
			fx.ensureVar(env.st, o)
			t, ok = env.st.vars[o]
			if env.old != nil {
				if _, has := env.old.vars[o]; !has {
					env.old.vars[o] = t
				}
			}
		}
		if !ok {
			sfail("variable %s is not in scope here", name)
		}
		if c.boxedVars[o] {
			if s, named, isPtr := structOf(o.Type()); s != nil && !isPtr && !opaqueNamed(named) {
				return fx.readStructAt(st, t, o.Type())
			}
			srt := c.sortOf(o.Type())
			h := st.heap("P:"+typeKey(o.Type()), "(Array Int "+srt+")")
			return Val{T: fmt.Sprintf("(select %s %s)", h, t), S: srt, GT: o.Type()}
		}
		return Val{T: t, S: c.sortOf(o.Type()), GT: o.Type()}
	case *types.Const:
		if v, ok := fx.constVal(types.TypeAndValue{Type: o.Type(), Value: o.Val()}); ok {
			return v
		}
	case *types.Nil:
		return Val{T: "0", S: "Int", GT: types.Typ[types.UntypedNil]}
	}
	if obj == nil {
		// a local declared in a nested scope: usable where the state holds exactly one live variable of that name
		var found types.Object
		n := 0
		for o := range env.st.vars { // locals denote their current value, also inside old()
			if o.Name() == name {
				found = o
				n++
			}
		}
		if n == 1 {
			if c.boxedVars[found] {
				sfail("variable %s is boxed; not usable by name here", name)
			}
			return Val{T: env.st.vars[found], S: c.sortOf(found.Type()), GT: found.Type()}
		}
		if fx.fi != nil && fx.localNamed(name) {
			sfail("variable %s is not in scope here", name)
		}
	}
	// 0-ary spec function / spec constant
	if sf, ok := fx.w.SFuncs[name]; ok && len(sf.Params) == 0 {
		return fx.specFuncApp(env, sf, nil)
	}
	sfail("unknown identifier %q", name)
	return Val{}
}

func (fx *Fx) specQualified(env *SpecEnv, pkgName, sel string) (Val, bool) {
	for _, p := range fx.w.allPackages() {
		if p.Name() != pkgName {
			continue
		}
		o := p.Scope().Lookup(sel)
		switch o := o.(type) {
		case *types.Const:
			if v, ok := fx.constVal(types.TypeAndValue{Type: o.Type(), Value: o.Val()}); ok {
				return v, true
			}
		case *types.Var:
			st := env.state()
			srt := fx.c.sortOf(o.Type())
			h := st.heap("GV:"+o.Pkg().Name()+"."+o.Name(), "(Array Int "+srt+")")
			return Val{T: fmt.Sprintf("(select %s 0)", h), S: srt, GT: o.Type()}, true
		}
	}
	return Val{}, false
}

func (fx *Fx) specField(env *SpecEnv, x Val, sel string) Val {
	c := fx.c
	st := env.state()
	if x.GT == nil {
		sfail("field %s of untyped term", sel)
	}
	// ghost field?
	tname := ghostTypeName(x.GT)
	if g, ok := fx.w.Ghosts[tname+"."+sel]; ok {
		srt, _ := env.sortOfName(g.Sort)
		h := st.heap("G:"+tname+"."+sel, "(Array Int "+srt+")")
		return Val{T: fmt.Sprintf("(select %s %s)", h, x.T), S: srt, GT: ghostGoType(env, g.Sort)}
	}
	obj, index, _ := types.LookupFieldOrMethod(x.GT, true, fx.pkgOf(x.GT, env), sel)
	f, ok := obj.(*types.Var)
	if !ok {
		sfail("no field %s in %s", sel, x.GT)
	}
	_ = f
	cur := x
	for _, idx := range index {
		s, named, isPtr := structOf(cur.GT)
		if s == nil {
			sfail("field path through %s", cur.GT)
		}
		fl := s.Field(idx)
		fs := c.sortOf(fl.Type())
		if isPtr {
			h := st.heap(fieldKey(named, fl.Name()), "(Array Int "+fs+")")
			cur = Val{T: fmt.Sprintf("(select %s %s)", h, cur.T), S: fs, GT: fl.Type()}
		} else {
			cur = Val{T: fmt.Sprintf("(%s__%s %s)", c.sortOf(named), fl.Name(), cur.T), S: fs, GT: fl.Type()}
		}
	}
	return cur
}

func ghostGoType(env *SpecEnv, srt string) types.Type {
	switch srt {
	case "Int":
		return types.Typ[types.Int]
	case "Bool":
		return types.Typ[types.Bool]
	}
	if strings.HasPrefix(srt, "(") {
		return nil
	}
	defer func() { recover() }()
	return env.typeOf(srt)
}

func ghostTypeName(t types.Type) string {
	t = types.Unalias(t)
	if p, ok := t.(*types.Pointer); ok {
		t = types.Unalias(p.Elem())
	}
	if n, ok := t.(*types.Named); ok && n.Obj().Pkg() != nil {
		return n.Obj().Pkg().Name() + "." + n.Obj().Name()
	}
	return types.TypeString(t, nil)
}

func (fx *Fx) pkgOf(t types.Type, env *SpecEnv) *types.Package {
	t = types.Unalias(t)
	if p, ok := t.(*types.Pointer); ok {
		t = types.Unalias(p.Elem())
	}
	if n, ok := t.(*types.Named); ok && n.Obj().Pkg() != nil {
		return n.Obj().Pkg()
	}
	if env.pkg != nil {
		return env.pkg.Types
	}
	return fx.pkg.Types
}

func (fx *Fx) specCall(env *SpecEnv, e *SCall) Val {
	c := fx.c
	boolT := types.Typ[types.Bool]
	intT := types.Typ[types.Int]
	st := env.state()
	if id, ok := e.Fun.(*SIdent); ok {
		arg := func(i int) Val { return fx.specEval(env, e.Args[i]) }
		switch id.Name {
		case "old":
			n := *env
			n.inOld = true
			return fx.specEval(&n, e.Args[0])
		case "len", "cap":
			x := arg(0)
			switch x.S {
			case "Slice":
				if id.Name == "cap" {
					return Val{T: "(s_cap " + x.T + ")", S: "Int", GT: intT}
				}
				return Val{T: "(s_len " + x.T + ")", S: "Int", GT: intT}
			case "Str":
				return Val{T: "(strlen " + x.T + ")", S: "Int", GT: intT}
			}
			if x.GT != nil {
				if _, ok := types.Unalias(x.GT).Underlying().(*types.Map); ok {
					h := st.heap("MC:"+typeKey(x.GT), "(Array Int Int)")
					return Val{T: fmt.Sprintf("(select %s %s)", h, x.T), S: "Int", GT: intT}
				}
			}
			sfail("len of %s", x.S)
		case "ev":
			return Val{T: fmt.Sprintf("(select %s %s)", st.evlog, arg(0).T), S: "Ev"}
		case "Δev":
			return Val{T: fmt.Sprintf("(select %s (+ %s %s))", env.st.evlog, env.old.evlen, arg(0).T), S: "Ev"}
		case "Send", "Recv", "Trace":
			ch, v := arg(0), arg(1)
			if ch.S == "Iface" {
				ch = Val{T: "(i_val " + ch.T + ")", S: "Int"}
			}
			return Val{T: evTerm(id.Name, ch.T, fx.specBox(env, v), "", ""), S: "Ev"}
		case "WgAdd":
			return Val{T: evTerm("WgAdd", arg(0).T, "", "", arg(1).T), S: "Ev"}
		case "WgDone", "WgWait":
			return Val{T: evTerm(id.Name, arg(0).T, "", "", ""), S: "Ev"}
		case "Call", "Spawn":
			// Call(code, a0 [, a1]) / Spawn(code, a0 [, a1])
			a0, a1 := "", ""
			if len(e.Args) > 1 {
				a0 = fx.specBox(env, arg(1))
			}
			if len(e.Args) > 2 {
				a1 = fx.specBox(env, arg(2))
			}
			return Val{T: evTerm(id.Name, arg(0).T, a0, a1, ""), S: "Ev"}
		case "Close":
			return Val{T: evTerm("Close", arg(0).T, "", "", ""), S: "Ev"}
		case "isSend", "isRecv", "isClose", "isTrace", "isSpawn", "isLock", "isUnlock", "isWgAdd", "isWgDone", "isWgWait", "isCall", "isOther", "isFnCall":
			return Val{T: fmt.Sprintf("(= (ev_kind %s) %d)", arg(0).T, evKinds[strings.TrimPrefix(id.Name, "is")]), S: "Bool", GT: boolT}
		case "isOpaque":
			// calls of function values and events of unknown code
			return Val{T: fmt.Sprintf("(>= (ev_kind %s) %d)", arg(0).T, evKinds["Other"]), S: "Bool", GT: boolT}
		case "evch":
			return Val{T: "(ev_ch " + arg(0).T + ")", S: "Int", GT: intT}
		case "evval":
			return Val{T: "(ev_val " + arg(0).T + ")", S: "Iface"}
		case "recvok":
			// recvok(e): the receive event e delivered a value (false: the channel was closed and drained)
			return Val{T: "(= (ev_n " + arg(0).T + ") 1)", S: "Bool", GT: boolT}
		case "evfn":
			return Val{T: "(ev_ch " + arg(0).T + ")", S: "Int", GT: intT}
		case "evmode":
			return Val{T: "(ev_n " + arg(0).T + ")", S: "Int", GT: intT}
		case "eva0":
			return Val{T: "(ev_val " + arg(0).T + ")", S: "Iface"}
		case "eva1":
			return Val{T: "(ev_a1 " + arg(0).T + ")", S: "Iface"}
		case "code":
			// code("(*flow).Start$1") : id of a function / literal of the current package
			s, ok := e.Args[0].(*SStr)
			if !ok {
				sfail("code() needs a string literal")
			}
			key := s.V
			if !strings.Contains(key, "|") {
				key = env.pkgPath(fx) + "|" + key
			} else if k := strings.Index(key, "|"); !strings.Contains(key[:k], "/") {
				// package given by name
				for _, p := range fx.w.Pkgs {
					if p.Name == key[:k] {
						key = p.PkgPath + key[k:]
					}
				}
			}
			return Val{T: fmt.Sprint(c.codeId(key)), S: "Int", GT: intT}
		case "preservedSince":
			// preservedSince(N, "elems(T)"): unchanged, at every reference that existed then, since the head of the current iteration of loop N
			n, ok := e.Args[0].(*SInt)
			s2, ok2 := e.Args[1].(*SStr)
			if !ok || !ok2 {
				sfail("preservedSince(N, \"entry\")")
			}
			hs := fx.loopHeads[n.V]
			if hs == nil {
				sfail("preservedSince(%s, ...): not inside loop %s", n.V, n.V)
			}
			pkg := env.pkg
			if pkg == nil {
				pkg = fx.pkg
			}
			keys, err := fx.w.resolveModEntry(pkg, fx.fi, s2.V)
			if err != nil {
				sfail("preservedSince(%q): %v", s2.V, err)
			}
			var parts []string
			for _, k := range keys {
				srt, known := c.heapSorts()[k]
				if !known {
					continue
				}
				parts = append(parts, fmt.Sprintf("(forall ((r!f Int)) (! (=> (and (< 0 r!f) (<= r!f %s)) (= (select %s r!f) (select %s r!f))) :pattern ((select %s r!f))))", hs.alloc, env.st.heap(k, srt), hs.heap(k, srt), env.st.heap(k, srt)))
			}
			if len(parts) == 0 {
				return Val{T: "true", S: "Bool", GT: boolT}
			}
			return Val{T: "(and " + strings.Join(parts, " ") + " true)", S: "Bool", GT: boolT}
		case "preserved":
			// preserved("elems([]int)"): the heap is unchanged at every reference that existed at entry (old state)
			s, ok := e.Args[0].(*SStr)
			if !ok {
				sfail("preserved() needs a string literal")
			}
			pkg := env.pkg
			if pkg == nil {
				pkg = fx.pkg
			}
			keys, err := fx.w.resolveModEntry(pkg, fx.fi, s.V)
			if err != nil {
				sfail("preserved(%q): %v", s.V, err)
			}
			var parts []string
			for _, k := range keys {
				srt, known := c.heapSorts()[k]
				if !known {
					continue
				}
				parts = append(parts, fmt.Sprintf("(forall ((r!f Int)) (! (=> (and (< 0 r!f) (<= r!f %s)) (= (select %s r!f) (select %s r!f))) :pattern ((select %s r!f))))", env.old.alloc, env.st.heap(k, srt), env.old.heap(k, srt), env.st.heap(k, srt)))
			}
			if len(parts) == 0 {
				return Val{T: "true", S: "Bool", GT: boolT}
			}
			return Val{T: "(and " + strings.Join(parts, " ") + " true)", S: "Bool", GT: boolT}
		case "count", "countOn":
			// count(Kind, T | code("...") ) : events of this kind so far whose payload has dynamic type T / whose code is given
			// countOn(Kind, ch)           : events of this kind so far on channel / tracer / wait group ch
			kid, ok := e.Args[0].(*SIdent)
			if !ok || evKinds[kid.Name] == 0 {
				sfail("%s(): first argument must be an event kind", id.Name)
			}
			k := evKinds[kid.Name]
			heapName := "CNT"
			var idx string
			if id.Name == "countOn" {
				heapName = "CNC"
				x := arg(1)
				if x.S == "Iface" {
					idx = "(i_val " + x.T + ")"
				} else {
					idx = x.T
				}
			} else if len(e.Args) == 1 {
				idx = "0"
			} else if k == 1 || k == 2 || k == 4 {
				t := env.typeOf(sexprTypeText(e.Args[1]))
				idx = fmt.Sprint(c.typeTag(t))
			} else {
				idx = arg(1).T
			}
			return Val{T: fmt.Sprintf("(select (select %s %d) %s)", st.heap(heapName, cntSort), k, idx), S: "Int", GT: intT}
		case "lastval":
			// lastval(Kind, T | code("...")): the payload of the most recent event of this kind whose payload has dynamic
			// type T (meaningful once count(Kind, T) is known to be positive)
			kid, ok := e.Args[0].(*SIdent)
			if !ok || evKinds[kid.Name] == 0 || len(e.Args) != 2 {
				sfail("lastval(Kind, T)")
			}
			k := evKinds[kid.Name]
			var idx string
			if k == 1 || k == 2 || k == 4 {
				idx = fmt.Sprint(c.typeTag(env.typeOf(sexprTypeText(e.Args[1]))))
			} else {
				idx = arg(1).T
			}
			return Val{T: fmt.Sprintf("(select (select %s %d) %s)", st.heap("LV", lvSort), k, idx), S: "Iface", GT: types.NewInterfaceType(nil, nil)}
		case "visited":
			// visited(N, k): key k of the map ranged over by loop N has been visited (in a completed or the current iteration)
			n, ok := e.Args[0].(*SInt)
			if !ok {
				sfail("visited(N, k)")
			}
			g, ok := st.ghost["b:mvis"+n.V]
			if !ok {
				sfail("visited(%s, ...): loop %s is not a range over a map in scope", n.V, n.V)
			}
			return Val{T: fmt.Sprintf("(select %s %s)", g, arg(1).T), S: "Bool", GT: boolT}
		case "atentry":
			// atentry(N, e): e evaluated in the state in which loop N was entered (before its first iteration)
			n, ok := e.Args[0].(*SInt)
			if !ok {
				sfail("atentry(N, e): N must be a loop ordinal")
			}
			hs := fx.loopEntries[n.V]
			if hs == nil {
				sfail("atentry(%s, ...): not inside loop %s", n.V, n.V)
			}
			nn := *env
			nn.st, nn.inOld = hs, false
			return fx.specEval(&nn, e.Args[1])
		case "athead":
			// athead(N, e): e evaluated at the head of the current iteration of loop N
			n, ok := e.Args[0].(*SInt)
			if !ok {
				sfail("athead(N, e): N must be a loop ordinal")
			}
			hs := fx.loopHeads[n.V]
			if hs == nil {
				sfail("athead(%s, ...): not inside loop %s", n.V, n.V)
			}
			nn := *env
			nn.st, nn.inOld = hs, false
			return fx.specEval(&nn, e.Args[1])
		case "unchangedKind":
			// unchangedKind(K): no event of kind K was logged since the old state (all its counters are unchanged)
			kn, ok := e.Args[0].(*SIdent)
			if !ok || evKinds[kn.Name] == 0 {
				sfail("unchangedKind(Kind)")
			}
			k := evKinds[kn.Name]
			ost := env.old
			return Val{T: fmt.Sprintf("(and (= (select %s %d) (select %s %d)) (= (select %s %d) (select %s %d)))",
				st.heap("CNT", cntSort), k, ost.heap("CNT", cntSort), k, st.heap("CNC", cntSort), k, ost.heap("CNC", cntSort), k), S: "Bool", GT: boolT}
		case "ndirect", "ndirectTrue":
			// ndirect(code("f")) / ndirectTrue(code("f")): direct calls of f made so far by this activation (callee flagged
			// countresult), and how many of them returned true
			off := 0
			if id.Name == "ndirectTrue" {
				off = 1
			}
			return Val{T: fmt.Sprintf("(select %s (+ (* 2 %s) %d))", st.heap("NRT", "(Array Int Int)"), arg(0).T, off), S: "Int", GT: intT}
		case "ncallsCode":
			// ncallsCode(code("...")): calls made so far through function values whose code is the given literal / function
			return Val{T: fmt.Sprintf("(select %s %s)", st.heap("NC", "(Array Int Int)"), arg(0).T), S: "Int", GT: intT}
		case "ncalls":
			// ncalls(f): number of calls made so far through function value f (ghost counter)
			c.declareFun("fn_code", []string{"Int"}, "Int")
			return Val{T: fmt.Sprintf("(select %s (fn_code %s))", st.heap("NC", "(Array Int Int)"), arg(0).T), S: "Int", GT: intT}
		case "ncallsTrueCode":
			// ncallsTrueCode(code("...")): how many of the calls made so far through function values with that code returned true
			return Val{T: fmt.Sprintf("(select %s %s)", st.heap("NCT", "(Array Int Int)"), arg(0).T), S: "Int", GT: intT}
		case "ncallsTrue":
			// ncallsTrue(f): how many of the calls made so far through function value f returned true
			c.declareFun("fn_code", []string{"Int"}, "Int")
			return Val{T: fmt.Sprintf("(select %s (fn_code %s))", st.heap("NCT", "(Array Int Int)"), arg(0).T), S: "Int", GT: intT}
		case "intval":
			// intval(x): the integer (or time, or reference) held by an interface value
			return Val{T: "(i_val " + arg(0).T + ")", S: "Int", GT: intT}
		case "chanlb":
			// chanlb(ch): ghost lower bound of the time values delivered on ch
			return Val{T: fmt.Sprintf("(select %s %s)", st.heap("CLB", "(Array Int Int)"), arg(0).T), S: "Int", GT: intT}
		case "ctxdone":
			c.declareFun("ctx_done", []string{"Iface"}, "Int")
			t := "(ctx_done " + arg(0).T + ")"
			// the same fact the code-level ctx.Done() gets: the channel of a context the activation was given existed
			// before anything the activation allocates
			if fx.entry != nil {
				c.axiom(fmt.Sprintf("(and (>= %s 0) (<= %s %s))", t, t, fx.entryAlloc()))
			}
			return Val{T: t, S: "Int", GT: intT}
		case "fncode":
			c.declareFun("fn_code", []string{"Int"}, "Int")
			return Val{T: "(fn_code " + arg(0).T + ")", S: "Int", GT: intT}
		case "is":
			// is(x, T): dynamic type test
			x := arg(0)
			tn := sexprTypeText(e.Args[1])
			t := env.typeOf(tn)
			return Val{T: fx.typeTest(st, x, t), S: "Bool", GT: boolT}
		case "ref":
			// ref(x): the reference held by an interface value (identity of the dynamic object)
			x := arg(0)
			if x.S == "Iface" {
				return Val{T: "(i_val " + x.T + ")", S: "Int", GT: intT}
			}
			return Val{T: x.T, S: "Int", GT: intT}
		case "tag":
			return Val{T: "(i_tag " + arg(0).T + ")", S: "Int", GT: intT}
		case "iface":
			// iface(x): box a concrete value
			return Val{T: fx.specBox(env, arg(0)), S: "Iface"}
		case "closed":
			return Val{T: fmt.Sprintf("(select %s %s)", st.heap("CC", "(Array Int Bool)"), arg(0).T), S: "Bool", GT: boolT}
		case "chancap":
			return Val{T: fmt.Sprintf("(select %s %s)", st.heap("CP", "(Array Int Int)"), arg(0).T), S: "Int", GT: intT}
		case "mu":
			// mu(x.f): identity of the lock stored in field f of object x
			sel, ok := e.Args[0].(*SSelector)
			if !ok {
				sfail("mu() needs a field selector")
			}
			x := fx.specEval(env, sel.X)
			cur := x
			obj, index, _ := types.LookupFieldOrMethod(x.GT, true, fx.pkgOf(x.GT, env), sel.Sel)
			if _, ok := obj.(*types.Var); !ok {
				sfail("mu(): no field %s", sel.Sel)
			}
			key := ""
			for k, idx := range index {
				s, named, isPtr := structOf(cur.GT)
				if s == nil || !isPtr && k > 0 {
					sfail("mu(): unsupported field path")
				}
				fl := s.Field(idx)
				key = fieldKey(named, fl.Name())
				if k < len(index)-1 {
					fs := c.sortOf(fl.Type())
					h := st.heap(key, "(Array Int "+fs+")")
					cur = Val{T: fmt.Sprintf("(select %s %s)", h, cur.T), S: fs, GT: fl.Type()}
				}
			}
			name := "addr_" + sanitize(key)
			c.declareFun(name, []string{"Int"}, "Int")
			return Val{T: fmt.Sprintf("(%s %s)", name, cur.T), S: "Int", GT: intT}
		case "held":
			return Val{T: fmt.Sprintf("(select %s %s)", st.heap("LK", "(Array Int Int)"), arg(0).T), S: "Int", GT: intT}
		case "oncedone":
			// oncedone(mu(x.f)): the sync.Once stored in field f of x has run (or is running) its callback
			return Val{T: fmt.Sprintf("(select %s %s)", st.heap("ONCE", "(Array Int Bool)"), arg(0).T), S: "Bool", GT: boolT}
		case "has":
			// has(m, k): key present in map
			m, k := arg(0), arg(1)
			mt, ok := types.Unalias(m.GT).Underlying().(*types.Map)
			if !ok {
				sfail("has() on non-map")
			}
			k = fx.specConv(env, k, mt.Key())
			ks := c.sortOf(mt.Key())
			hd := st.heap("MD:"+typeKey(m.GT), "(Array Int (Array "+ks+" Bool))")
			return Val{T: fmt.Sprintf("(select (select %s %s) %s)", hd, m.T, k.T), S: "Bool", GT: boolT}
		case "onlymap":
			// onlymap(m): among all maps of m's type, only m may differ from the old state
			m := arg(0)
			mt, ok := types.Unalias(m.GT).Underlying().(*types.Map)
			if !ok {
				sfail("onlymap() on non-map")
			}
			ks, vs := c.sortOf(mt.Key()), c.sortOf(mt.Elem())
			key := typeKey(m.GT)
			hds, hvs := "(Array Int (Array "+ks+" Bool))", "(Array Int (Array "+ks+" "+vs+"))"
			return Val{T: fmt.Sprintf("(forall ((r!m Int)) (=> (and (not (= r!m %s)) (<= r!m %s)) (and (= (select %s r!m) (select %s r!m)) (= (select %s r!m) (select %s r!m)))))",
				m.T, env.old.alloc, env.st.heap("MD:"+key, hds), env.old.heap("MD:"+key, hds), env.st.heap("MV:"+key, hvs), env.old.heap("MV:"+key, hvs)), S: "Bool", GT: boolT}
		case "second":
			// second(x.M(args)): the second result of a pure call
			n := *env
			n.resultIdx = 1
			return fx.specEval(&n, e.Args[0])
		case "fresh":
			// fresh(p): allocated during this activation
			return Val{T: fmt.Sprintf("(> %s %s)", arg(0).T, env.old.alloc), S: "Bool", GT: boolT}
		case "base":
			return Val{T: "(s_base " + arg(0).T + ")", S: "Int", GT: intT}
		case "off":
			return Val{T: "(s_off " + arg(0).T + ")", S: "Int", GT: intT}
		case "at":
			// at(s, a): element at absolute position a of the backing array of s (s[i] == at(s, off(s)+i))
			x, a := arg(0), arg(1)
			sl, ok := types.Unalias(x.GT).Underlying().(*types.Slice)
			if !ok {
				sfail("at() on non-slice")
			}
			es := c.sortOf(sl.Elem())
			h := st.heap("E:"+typeKey(sl.Elem()), "(Array Int (Array Int "+es+"))")
			return Val{T: fmt.Sprintf("(select (select %s (s_base %s)) %s)", h, x.T, a.T), S: es, GT: sl.Elem()}
		case "elemptrAt":
			// elemptrAt(s, a): address of the element at absolute position a
			x, a := arg(0), arg(1)
			sl, ok := types.Unalias(x.GT).Underlying().(*types.Slice)
			if !ok {
				sfail("elemptrAt on non-slice")
			}
			name := "elemaddr_" + typeKey(sl.Elem())
			c.declareFun(name, []string{"Int", "Int"}, "Int")
			return Val{T: fmt.Sprintf("(%s (s_base %s) %s)", name, x.T, a.T), S: "Int", GT: types.NewPointer(sl.Elem())}
		case "elemptr":
			// elemptr(s, i): address of s[i]
			x, i := arg(0), arg(1)
			sl, ok := types.Unalias(x.GT).Underlying().(*types.Slice)
			if !ok {
				sfail("elemptr on non-slice")
			}
			name := "elemaddr_" + typeKey(sl.Elem())
			c.declareFun(name, []string{"Int", "Int"}, "Int")
			return Val{T: fmt.Sprintf("(%s (s_base %s) (+ (s_off %s) %s))", name, x.T, x.T, i.T), S: "Int", GT: types.NewPointer(sl.Elem())}
		case "fmtv":
			// fmtv(x): fmt.Sprintf("%v", x) of a float
			x := arg(0)
			if x.S == "Int" {
				return Val{T: "(itoa " + x.T + ")", S: "Str", GT: types.Typ[types.String]}
			}
			c.declareFun("fmt_real_v", []string{"Real"}, "Str")
			return Val{T: "(fmt_real_v " + x.T + ")", S: "Str", GT: types.Typ[types.String]}
		case "fmtf":
			c.declareFun("fmt_real_f", []string{"Real"}, "Str")
			return Val{T: "(fmt_real_f " + arg(0).T + ")", S: "Str", GT: types.Typ[types.String]}
		case "itoa":
			return Val{T: "(itoa " + arg(0).T + ")", S: "Str", GT: types.Typ[types.String]}
		case "heap":
			s, ok := e.Args[0].(*SStr)
			if !ok {
				sfail("heap() needs a string literal")
			}
			srt, known := c.heapSorts()[s.V]
			if !known && strings.HasPrefix(s.V, "G:") {
				// a ghost field's heap has the declared sort wherever it is first mentioned
				if g, ok := fx.w.Ghosts[strings.TrimPrefix(s.V, "G:")]; ok {
					gs, _ := env.sortOfName(g.Sort)
					srt, known = "(Array Int "+gs+")", true
				}
			}
			if !known && strings.HasPrefix(s.V, "E:") {
				// element heaps of pointer slices: nested arrays of references
				srt, known = "(Array Int (Array Int Int))", strings.HasPrefix(s.V, "E:P")
			}
			if !known {
				if len(e.Args) > 1 {
					srt = e.Args[1].(*SStr).V
				} else {
					sfail("heap %q has no known sort here", s.V)
				}
			}
			return Val{T: st.heap(s.V, srt), S: srt}
		case "unchanged":
			// unchanged(): every heap equals its value in the old state; unchanged("x.f", "elems(T)") lists exceptions
			skip := map[string]bool{}
			pkg := env.pkg
			if pkg == nil {
				pkg = fx.pkg
			}
			for _, a := range e.Args {
				s, ok := a.(*SStr)
				if !ok {
					sfail("unchanged() takes string literals")
				}
				keys, err := fx.w.resolveModEntry(pkg, fx.fi, s.V)
				if err != nil {
					sfail("unchanged(%q): %v", s.V, err)
				}
				for _, k := range keys {
					skip[k] = true
				}
			}
			var parts []string
			for _, k := range sortedKeys(c.heapSorts()) {
				if skip[k] || k == "NC" || k == "NCT" || k == "CNT" || k == "CNC" || k == "LV" || k == "NRT" {
					continue
				}
				srt := c.heapSorts()[k]
				a, b := env.st.heap(k, srt), env.old.heap(k, srt)
				if a != b {
					parts = append(parts, fmt.Sprintf("(= %s %s)", a, b))
				}
			}
			if len(parts) == 0 {
				return Val{T: "true", S: "Bool", GT: boolT}
			}
			return Val{T: "(and " + strings.Join(parts, " ") + " true)", S: "Bool", GT: boolT}
		case "store":
			// store(a, i, v): array update
			a, i, v := arg(0), arg(1), arg(2)
			if !strings.HasPrefix(a.S, "(Array") {
				sfail("store() on %s", a.S)
			}
			return Val{T: fmt.Sprintf("(store %s %s %s)", a.T, i.T, v.T), S: a.S}
		case "ite":
			cnd := fx.specBool(env, e.Args[0])
			a, b := fx.specUnify(env, arg(1), arg(2))
			return Val{T: fmt.Sprintf("(ite %s %s %s)", cnd, a.T, b.T), S: a.S, GT: a.GT}
		case "real":
			x := arg(0)
			if x.S == "Int" {
				return Val{T: "(to_real " + x.T + ")", S: "Real", GT: types.Typ[types.Float64]}
			}
			return x
		}
		if sf, ok := fx.w.SFuncs[id.Name]; ok {
			var args []Val
			for i := range e.Args {
				args = append(args, arg(i))
			}
			return fx.specFuncApp(env, sf, args)
		}
		// conversion to a named type: T(x)
		if t := env.tryType(id.Name); t != nil && len(e.Args) == 1 {
			return fx.specConv(env, arg(0), t)
		}
		// program function with a pure contract
		pkg := env.pkg
		if pkg == nil {
			pkg = fx.pkg
		}
		if fn, ok := pkg.Types.Scope().Lookup(id.Name).(*types.Func); ok {
			var args []Val
			for i := range e.Args {
				args = append(args, arg(i))
			}
			return fx.specPureCall(env, fn, nil, args)
		}
		sfail("unknown function %q in contract", id.Name)
	}
	if sel, ok := e.Fun.(*SSelector); ok {
		// package-qualified program function: pkg.F(args)
		if id, ok := sel.X.(*SIdent); ok {
			if _, bound := env.bound[id.Name]; !bound {
				for _, p := range fx.w.allPackages() {
					if p.Name() != id.Name {
						continue
					}
					if fn, ok := p.Scope().Lookup(sel.Sel).(*types.Func); ok {
						var args []Val
						for _, a := range e.Args {
							args = append(args, fx.specEval(env, a))
						}
						return fx.specPureCall(env, fn, nil, args)
					}
				}
			}
		}
		// method call on a program value
		x := fx.specEval(env, sel.X)
		if x.GT == nil {
			sfail("method call on untyped term")
		}
		obj, mindex, _ := types.LookupFieldOrMethod(x.GT, true, fx.pkgOf(x.GT, env), sel.Sel)
		fn, ok := obj.(*types.Func)
		if !ok {
			sfail("no method %s on %s", sel.Sel, x.GT)
		}
		// a method promoted through embedded fields is called on the embedded value
		for _, idx := range mindex[:len(mindex)-1] {
			s, named, isPtr := structOf(x.GT)
			if s == nil {
				sfail("promoted method %s: path through %s", sel.Sel, x.GT)
			}
			fl := s.Field(idx)
			fs := c.sortOf(fl.Type())
			if isPtr {
				h := env.state().heap(fieldKey(named, fl.Name()), "(Array Int "+fs+")")
				x = Val{T: fmt.Sprintf("(select %s %s)", h, x.T), S: fs, GT: fl.Type()}
			} else {
				x = Val{T: fmt.Sprintf("(%s__%s %s)", c.sortOf(named), fl.Name(), x.T), S: fs, GT: fl.Type()}
			}
		}
		var args []Val
		for _, a := range e.Args {
			args = append(args, fx.specEval(env, a))
		}
		// pointer-receiver method on an addressable struct variable: the receiver is the variable's address
		if rs := fn.Type().(*types.Signature).Recv(); rs != nil {
			_, wantPtr := types.Unalias(rs.Type()).(*types.Pointer)
			_, isPtr := types.Unalias(x.GT).Underlying().(*types.Pointer)
			_, isIf := types.Unalias(x.GT).Underlying().(*types.Interface)
			if wantPtr && !isPtr && !isIf {
				id, ok := sel.X.(*SIdent)
				if !ok {
					sfail("pointer-receiver method %s on a non-variable struct value", sel.Sel)
				}
				// the variable lives on the heap when its address is taken (implicitly by such calls): its cell reference
				var cell string
				idName := id.Name
				if _, isBound := env.bound[idName]; !isBound || fx.renamed(idName) != idName {
					idName = fx.renamed(idName)
				}
				for o, t := range env.st.vars {
					if o.Name() == idName && c.boxedVars[o] {
						cell = t
					}
				}
				if cell == "" && fx.entry != nil {
					for o, t := range fx.entry.vars {
						if o.Name() == idName && c.boxedVars[o] {
							cell = t
						}
					}
				}
				if cell != "" {
					x = Val{T: cell, S: "Int", GT: types.NewPointer(x.GT)}
				} else {
					name := "addr_local_" + sanitize(id.Name)
					c.declareConst(name, "Int")
					x = Val{T: name, S: "Int", GT: types.NewPointer(x.GT)}
				}
			}
		}
		return fx.specPureCall(env, fn, &x, args)
	}
	sfail("cannot call %s", sexprString(e.Fun))
	_ = c
	return Val{}
}

func (env *SpecEnv) pkgPath(fx *Fx) string {
	if env.pkg != nil {
		return env.pkg.PkgPath
	}
	return fx.pkg.PkgPath
}

func (env *SpecEnv) tryType(name string) (t types.Type) {
	defer func() {
		if r := recover(); r != nil {
			t = nil
		}
	}()
	return env.typeOf(name)
}

// specPureCall: a program function used inside a contract: needs a pure contract.
// If the contract has `ensures result == E`, E is inlined; otherwise an uninterpreted function is applied.
func (fx *Fx) specPureCall(env *SpecEnv, fn *types.Func, recv *Val, args []Val) Val {
	sig := fn.Type().(*types.Signature)
	sp, key := fx.specFor(fn)
	ri := env.resultIdx
	if sig.Results().Len() <= ri {
		sfail("call of %s in contract: no result %d", key, ri)
	}
	rt := sig.Results().At(ri).Type()
	if ri > 0 {
		n := *env
		n.resultIdx = 0
		env = &n
		if sp != nil && sp.Flags["pure"] != "" || sp == nil && (fx.pureGlob(key) || fx.pureIfaceMethod(fn)) {
			k2 := key
			if sp == nil {
				k2 = "m|" + fn.Name() + "|" + key
			}
			return fx.pureAppSpecIdx(k2, ri, recv, args, rt)
		}
		sfail("second(): %s is not pure", key)
	}
	if sp == nil {
		if fx.pureGlob(key) || fx.pureIfaceMethod(fn) {
			return fx.pureAppSpec("m|"+fn.Name()+"|"+key, recv, args, rt)
		}
		sfail("call of %s in a contract needs a pure contract", key)
	}
	if sp.Flags["pure"] == "" {
		sfail("call of %s in a contract: contract is not pure", key)
	}
	bound := map[string]Val{}
	if recv != nil {
		bound["this"] = *recv
		if rn := sig.Recv().Name(); rn != "" && rn != "_" {
			bound[rn] = *recv
		}
	}
	for i := 0; i < sig.Params().Len() && i < len(args); i++ {
		args[i] = fx.specConv(env, args[i], sig.Params().At(i).Type())
		if pn := sig.Params().At(i).Name(); pn != "" && pn != "_" {
			bound[pn] = args[i]
		}
		bound[fmt.Sprintf("arg%d", i)] = args[i]
	}
	fx.w.aliasRecordedNames(key, bound)
	for _, e := range sp.Ensures {
		if b, ok := e.Expr.(*SBinary); ok && (b.Op == "==" || b.Op == "<==>") {
			if id, ok := b.X.(*SIdent); ok && id.Name == "result" {
				n := *env
				n.bound = bound
				n.pkg = fx.w.Pkgs[sp.PkgPath]
				n.pos = token.NoPos
				v := fx.specEval(&n, b.Y)
				v.GT = rt
				return v
			}
		}
	}
	return fx.pureAppSpec(key, recv, args, rt)
}

func (fx *Fx) pureAppSpec(key string, recv *Val, args []Val, rt types.Type) Val {
	return fx.pureAppSpecIdx(key, 0, recv, args, rt)
}

func (fx *Fx) pureAppSpecIdx(key string, idx int, recv *Val, args []Val, rt types.Type) Val {
	c := fx.c
	var sorts, terms []string
	if recv != nil {
		sorts = append(sorts, recv.S)
		terms = append(terms, recv.T)
	}
	for _, a := range args {
		sorts = append(sorts, a.S)
		terms = append(terms, a.T)
	}
	rs := c.sortOf(rt)
	name := fmt.Sprintf("pf_%s_%d", sanitize(key), idx)
	if len(sorts) == 0 {
		c.declareConst(name, rs)
		return Val{T: name, S: rs, GT: rt}
	}
	c.declareFun(name, sorts, rs)
	return Val{T: "(" + name + " " + strings.Join(terms, " ") + ")", S: rs, GT: rt}
}

// specFuncApp: non-recursive spec functions are macros; recursive ones become define-fun-rec.
func (fx *Fx) specFuncApp(env *SpecEnv, sf *SpecFunc, args []Val) Val {
	c := fx.c
	if len(args) != len(sf.Params) {
		sfail("spec func %s: %d arguments for %d parameters", sf.Name, len(args), len(sf.Params))
	}
	if hp := fx.w.Pkgs[sf.PkgPath]; hp != nil && hp != env.pkg {
		// the function's parameter types and body are resolved in the package that declares it
		e2 := *env
		e2.pkg = hp
		e2.pos = token.NoPos
		outer := env.bound
		env = &e2
		env.bound = outer
	}
	rs, rgt := env.sortOfName(sf.Result)
	if sf.Body != nil && !sexprMentions(sf.Body, sf.Name) {
		n := *env
		n.bound = map[string]Val{}
		for k, v := range env.bound {
			n.bound[k] = v
		}
		for i, p := range sf.Params {
			ps, pgt := env.sortOfName(p.Type)
			a := args[i]
			if pgt != nil {
				a = fx.specConv(env, a, pgt)
			} else if a.S != ps {
				a, _ = fx.specUnify(env, a, Val{T: "", S: ps})
			}
			a.GT = pgt
			if pgt == nil {
				a.S = ps
			}
			n.bound[p.Name] = a
		}
		v := fx.specEval(&n, sf.Body)
		if rgt != nil {
			v = fx.specConv(env, v, rgt)
		}
		return v
	}
	// uninterpreted or recursive
	var psorts []string
	var terms []string
	for i, p := range sf.Params {
		ps, pgt := env.sortOfName(p.Type)
		a := args[i]
		if pgt != nil {
			a = fx.specConv(env, a, pgt)
		}
		psorts = append(psorts, ps)
		terms = append(terms, a.T)
	}
	name := "sf_" + sf.Name
	if !c.specFnDone[sf.Name] {
		c.specFnDone[sf.Name] = true
		if sf.Body == nil {
			if len(psorts) == 0 {
				c.declareConst(name, rs)
			} else {
				c.declareFun(name, psorts, rs)
			}
		} else {
			// recursive definition: parameters are the only free names
			n := &SpecEnv{fx: fx, st: env.st, old: env.old, bound: map[string]Val{}, pkg: env.pkg, pos: token.NoPos}
			var decl []string
			for i, p := range sf.Params {
				ps, pgt := env.sortOfName(p.Type)
				pn := fmt.Sprintf("%s!p", p.Name)
				decl = append(decl, fmt.Sprintf("(%s %s)", pn, psorts[i]))
				n.bound[p.Name] = Val{T: pn, S: ps, GT: pgt}
			}
			body := fx.specEval(n, sf.Body)
			c.decls = append(c.decls, fmt.Sprintf("(define-fun-rec %s (%s) %s %s)", name, strings.Join(decl, " "), rs, body.T))
			c.markDeclared(name)
		}
	}
	if len(terms) == 0 {
		return Val{T: name, S: rs, GT: rgt}
	}
	return Val{T: "(" + name + " " + strings.Join(terms, " ") + ")", S: rs, GT: rgt}
}

func sexprMentions(e SExpr, name string) bool {
	found := false
	var walk func(x SExpr)
	walk = func(x SExpr) {
		switch x := x.(type) {
		case *SIdent:
			if x.Name == name {
				found = true
			}
		case *SUnary:
			walk(x.X)
		case *SBinary:
			walk(x.X)
			walk(x.Y)
		case *SCall:
			walk(x.Fun)
			for _, a := range x.Args {
				walk(a)
			}
		case *SSelector:
			walk(x.X)
		case *SIndex:
			walk(x.X)
			walk(x.I)
		case *SSliceE:
			walk(x.X)
			if x.Lo != nil {
				walk(x.Lo)
			}
			if x.Hi != nil {
				walk(x.Hi)
			}
		case *SQuant:
			walk(x.Body)
		case *SCond:
			walk(x.C)
			walk(x.A)
			walk(x.B)
		case *SLet:
			walk(x.Val)
			walk(x.Body)
		case *STypeAssert:
			walk(x.X)
		}
	}
	walk(e)
	return found
}

func sexprTypeText(e SExpr) string {
	switch x := e.(type) {
	case *SIdent:
		return x.Name
	case *SSelector:
		return sexprTypeText(x.X) + "." + x.Sel
	case *SUnary:
		if x.Op == "*" {
			return "*" + sexprTypeText(x.X)
		}
	case *SStr:
		return x.V
	}
	sfail("type expected, got %s", sexprString(e))
	return ""
}

func sexprString(e SExpr) string {
	switch x := e.(type) {
	case *SIdent:
		return x.Name
	case *SInt:
		return x.V
	case *SStr:
		return fmt.Sprintf("%q", x.V)
	case *SBool:
		return fmt.Sprint(x.V)
	case *SNil:
		return "nil"
	case *SUnary:
		return x.Op + sexprString(x.X)
	case *SBinary:
		return "(" + sexprString(x.X) + " " + x.Op + " " + sexprString(x.Y) + ")"
	case *SCall:
		var as []string
		for _, a := range x.Args {
			as = append(as, sexprString(a))
		}
		return sexprString(x.Fun) + "(" + strings.Join(as, ", ") + ")"
	case *SSelector:
		return sexprString(x.X) + "." + x.Sel
	case *SIndex:
		return sexprString(x.X) + "[" + sexprString(x.I) + "]"
	case *SSliceE:
		return sexprString(x.X) + "[:]"
	case *SQuant:
		return "quant(" + sexprString(x.Body) + ")"
	case *SCond:
		return sexprString(x.C) + " ? " + sexprString(x.A) + " : " + sexprString(x.B)
	case *SLet:
		return "let " + x.Name
	case *STypeAssert:
		return sexprString(x.X) + ".(" + x.T + ")"
	}
	return fmt.Sprintf("%T", e)
}

// localNamed: the function under analysis declares a local variable of this name somewhere.
func (fx *Fx) localNamed(name string) bool {
	found := false
	var root ast.Node = fx.fi.Decl
	ast.Inspect(root, func(n ast.Node) bool {
		if id, ok := n.(*ast.Ident); ok && id.Name == name {
			if _, isVar := fx.info.Defs[id].(*types.Var); isVar {
				found = true
			}
		}
		return !found
	})
	if !found {
		for node, obj := range fx.info.Implicits {
			if obj != nil && obj.Name() == name && node.Pos() >= root.Pos() && node.End() <= root.End() {
				return true
			}
		}
	}
	return found
}
