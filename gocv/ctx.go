package main

// SMT context for one verification unit (one function body, or one lemma):
// sort mapping, declarations, global (definitional) assertions, obligations.

import (
	"fmt"
	"go/token"
	"go/types"
	"sort"
	"strings"
)

type Val struct {
	T  string     // SMT term
	S  string     // SMT sort
	GT types.Type // Go type when known
}

type Oblig struct {
	Name    string
	Class   string
	Anchor  string
	Func    string // function key
	Pos     token.Position
	NDecl   int // number of decls visible
	NAssert int // number of global assertions visible
	PC      string
	Phi     string
	Text    string // human-readable clause text
	Props   []string
	Group   string // obligations of one group (paths of one clause) are reported under this name
	Vacuity bool   // expected SAT (reachability): query is (assert pc), sat = ok
	Inputs  []ModelVar
	ctx     *Ctx
}

type ModelVar struct {
	Name string // human name (param name, "len(param)", ...)
	Term string
}

type Ctx struct {
	W          *World
	FuncKey    string
	decls      []string
	asserts    []string
	declared   map[string]bool
	n          int
	obligs     []*Oblig
	anchorCnt  map[string]int
	tags       map[string]int
	strLits    map[string]string
	warnings   []string
	inputs     []ModelVar
	specFnDone map[string]bool
	props      []string
	hs         map[string]string
	epochs     int
	boxedVars  map[types.Object]bool
	locks      []string
	wfDone     map[string]bool
	ghostSorts map[string]string
	sealed     map[string][]int
	declLog    []string
	persist    map[string]bool // constants that survive the rollback of a dry pass (captured inputs)
	dry        bool            // dry run (loop pre-pass that only registers heap sorts): obligations are dropped
	lazyAxioms []string        // stated only in queries that mention one of their function symbols
	pcParent   map[string]string
	pcPhi      map[string]string
	interior   map[string]*Loc
}

func newCtx(w *World, key string) *Ctx {
	c := &Ctx{W: w, FuncKey: key, declared: map[string]bool{}, anchorCnt: map[string]int{}, tags: map[string]int{}, strLits: map[string]string{}, specFnDone: map[string]bool{}, pcParent: map[string]string{}, pcPhi: map[string]string{}}
	c.decls = append(c.decls,
		"(declare-sort Str 0)",
		"(declare-datatypes ((Slice 0)) (((mkSlice (s_base Int) (s_off Int) (s_len Int) (s_cap Int)))))",
		"(declare-datatypes ((Iface 0)) (((mkIface (i_tag Int) (i_val Int)))))",
		// ghost events
		"(declare-datatypes ((Ev 0)) (((mkEv (ev_kind Int) (ev_ch Int) (ev_val Iface) (ev_a1 Iface) (ev_n Int)))))",
		"(declare-const str_empty Str)",
		"(declare-fun strlen (Str) Int)",
		"(declare-fun str_concat (Str Str) Str)",
		"(declare-fun itoa (Int) Str)",
	)
	c.asserts = append(c.asserts,
		"(assert (= (strlen str_empty) 0))",
	)
	c.strLits[""] = "str_empty"
	return c
}

func (c *Ctx) fresh(prefix string) string {
	c.n++
	return fmt.Sprintf("%s!%d", sanitize(prefix), c.n)
}

func sanitize(s string) string {
	var b strings.Builder
	for _, r := range s {
		switch {
		case r >= 'a' && r <= 'z', r >= 'A' && r <= 'Z', r >= '0' && r <= '9', r == '_':
			b.WriteRune(r)
		case r == '.':
			b.WriteRune('.')
		case r == '*':
			b.WriteString("P")
		case r == '[' || r == ']':
			b.WriteString("_")
		default:
			b.WriteString("_")
		}
	}
	return b.String()
}

func (c *Ctx) declareConst(name, srt string) {
	if c.declared[name] {
		return
	}
	c.markDeclared(name)
	c.decls = append(c.decls, fmt.Sprintf("(declare-const %s %s)", name, srt))
}

func (c *Ctx) declareFun(name string, args []string, res string) {
	if c.declared[name] {
		return
	}
	c.markDeclared(name)
	c.decls = append(c.decls, fmt.Sprintf("(declare-fun %s (%s) %s)", name, strings.Join(args, " "), res))
	if strings.HasPrefix(name, "addr_") && len(args) == 1 && args[0] == "Int" && res == "Int" {
		// the address of a field identifies its object: different objects have different locks / wait groups / onces
		c.decls = append(c.decls, fmt.Sprintf("(declare-fun %s_inv (Int) Int)", name),
			fmt.Sprintf("(assert (forall ((r!a Int)) (! (= (%s_inv (%s r!a)) r!a) :pattern ((%s r!a)))))", name, name, name))
	}
}

// freshConst declares a fresh constant of the sort.
func (c *Ctx) freshConst(prefix, srt string) string {
	n := c.fresh(prefix)
	c.declareConst(n, srt)
	return n
}

// define introduces a fresh constant equal to term (keeps terms small).
func (c *Ctx) define(prefix, srt, term string) string {
	if isAtom(term) {
		return term
	}
	n := c.freshConst(prefix, srt)
	c.asserts = append(c.asserts, fmt.Sprintf("(assert (= %s %s))", n, term))
	return n
}

func isAtom(t string) bool {
	return !strings.ContainsAny(t, " (")
}

func (c *Ctx) axiom(a string) {
	c.asserts = append(c.asserts, "(assert "+a+")")
}

func (c *Ctx) warn(f string, a ...any) {
	c.warnings = append(c.warnings, fmt.Sprintf(f, a...))
}

// ---------------------------------------------------------------------------
// sorts

func isNamed(t types.Type, pkg, name string) bool {
	n, ok := t.(*types.Named)
	if !ok {
		if a, ok2 := t.(*types.Alias); ok2 {
			return isNamed(types.Unalias(a), pkg, name)
		}
		return false
	}
	o := n.Obj()
	return o != nil && o.Pkg() != nil && o.Pkg().Path() == pkg && o.Name() == name
}

func opaqueNamed(t types.Type) bool {
	n, ok := types.Unalias(t).(*types.Named)
	if !ok || n.Obj().Pkg() == nil {
		return false
	}
	switch n.Obj().Pkg().Path() {
	case "sync":
		return true
	case "sync/atomic":
		return true
	case "time":
		return n.Obj().Name() == "Time" || n.Obj().Name() == "Location"
	case "reflect":
		return n.Obj().Name() == "Value"
	}
	return false
}

func opaqueSort(t types.Type) string {
	if isNamed(t, "sync/atomic", "Bool") {
		return "Bool"
	}
	if isNamed(t, "sync/atomic", "Value") {
		return "Iface"
	}
	return "Int"
}

func (c *Ctx) sortOf(t types.Type) string {
	t = types.Unalias(t)
	if opaqueNamed(t) {
		return opaqueSort(t)
	}
	switch u := t.Underlying().(type) {
	case *types.Basic:
		switch {
		case u.Info()&types.IsBoolean != 0:
			return "Bool"
		case u.Info()&types.IsInteger != 0:
			return "Int"
		case u.Info()&types.IsFloat != 0:
			return "Real"
		case u.Info()&types.IsString != 0:
			return "Str"
		case u.Kind() == types.UnsafePointer:
			return "Int"
		case u.Kind() == types.UntypedNil:
			return "Int"
		}
		return "Int"
	case *types.Pointer, *types.Chan, *types.Map, *types.Signature:
		return "Int"
	case *types.Slice:
		return "Slice"
	case *types.Interface:
		return "Iface"
	case *types.Struct:
		return c.structSort(t, u)
	case *types.Array:
		return "(Array Int " + c.sortOf(u.Elem()) + ")"
	case *types.Tuple:
		return "Int"
	case *types.TypeParam:
		return "Iface"
	}
	return "Int"
}

func typeKey(t types.Type) string {
	return sanitize(types.TypeString(types.Unalias(t), func(p *types.Package) string { return p.Name() }))
}

func (c *Ctx) structSort(t types.Type, u *types.Struct) string {
	name := "S_" + typeKey(t)
	if u.NumFields() == 0 {
		name = "S_empty"
	}
	if c.declared["sort:"+name] {
		return name
	}
	c.markDeclared("sort:" + name)
	var fs []string
	for i := 0; i < u.NumFields(); i++ {
		f := u.Field(i)
		fs = append(fs, fmt.Sprintf("(%s__%s %s)", name, f.Name(), c.sortOf(f.Type())))
	}
	c.decls = append(c.decls, fmt.Sprintf("(declare-datatypes ((%s 0)) (((mk_%s %s))))", name, name, strings.Join(fs, " ")))
	return name
}

func (c *Ctx) zero(t types.Type) string {
	t = types.Unalias(t)
	if opaqueNamed(t) {
		return c.zeroOfSort(opaqueSort(t))
	}
	switch u := t.Underlying().(type) {
	case *types.Basic:
		switch {
		case u.Info()&types.IsBoolean != 0:
			return "false"
		case u.Info()&types.IsFloat != 0:
			return "0.0"
		case u.Info()&types.IsString != 0:
			return "str_empty"
		}
		return "0"
	case *types.Slice:
		return "(mkSlice 0 0 0 0)"
	case *types.Interface:
		return "(mkIface 0 0)"
	case *types.Struct:
		s := c.structSort(t, u)
		if u.NumFields() == 0 {
			return "mk_" + s
		}
		var fs []string
		for i := 0; i < u.NumFields(); i++ {
			fs = append(fs, c.zero(u.Field(i).Type()))
		}
		return "(mk_" + s + " " + strings.Join(fs, " ") + ")"
	case *types.Array:
		return fmt.Sprintf("((as const %s) %s)", c.sortOf(t), c.zero(u.Elem()))
	}
	return "0"
}

func (c *Ctx) zeroOfSort(s string) string {
	switch s {
	case "Int":
		return "0"
	case "Bool":
		return "false"
	case "Real":
		return "0.0"
	case "Str":
		return "str_empty"
	case "Slice":
		return "(mkSlice 0 0 0 0)"
	case "Iface":
		return "(mkIface 0 0)"
	}
	return ""
}

// refTypeFact: non-nil references of different Go types are different objects.
func (c *Ctx) refTypeFact(term string, t types.Type) string {
	switch types.Unalias(t).Underlying().(type) {
	case *types.Pointer, *types.Chan, *types.Map:
		c.declareFun("reftype", []string{"Int"}, "Int")
		tt := t
		if ch, ok := types.Unalias(t).Underlying().(*types.Chan); ok {
			// channel direction does not change identity
			tt = types.NewChan(types.SendRecv, ch.Elem())
		}
		return fmt.Sprintf("(=> (not (= %s 0)) (= (reftype %s) %d))", term, term, c.typeTagKey("ref:"+types.TypeString(types.Unalias(tt), nil)))
	}
	return ""
}

// rangeAssume returns the type-range constraint for a term of Go type t ("" if none).
func (c *Ctx) rangeAssume(term string, t types.Type) string {
	t = types.Unalias(t)
	if opaqueNamed(t) {
		return ""
	}
	switch u := t.Underlying().(type) {
	case *types.Basic:
		if u.Info()&types.IsInteger == 0 {
			if u.Info()&types.IsString != 0 {
				return ""
			}
			return ""
		}
		switch u.Kind() {
		case types.Int, types.Int64:
			return fmt.Sprintf("(and (<= (- 9223372036854775808) %s) (<= %s 9223372036854775807))", term, term)
		case types.Int32:
			return fmt.Sprintf("(and (<= (- 2147483648) %s) (<= %s 2147483647))", term, term)
		case types.Int16:
			return fmt.Sprintf("(and (<= (- 32768) %s) (<= %s 32767))", term, term)
		case types.Int8:
			return fmt.Sprintf("(and (<= (- 128) %s) (<= %s 127))", term, term)
		case types.Uint, types.Uint64, types.Uintptr:
			return fmt.Sprintf("(and (<= 0 %s) (<= %s 18446744073709551615))", term, term)
		case types.Uint32:
			return fmt.Sprintf("(and (<= 0 %s) (<= %s 4294967295))", term, term)
		case types.Uint16:
			return fmt.Sprintf("(and (<= 0 %s) (<= %s 65535))", term, term)
		case types.Uint8:
			return fmt.Sprintf("(and (<= 0 %s) (<= %s 255))", term, term)
		}
	case *types.Slice:
		return fmt.Sprintf("(and (<= 0 (s_off %s)) (<= 0 (s_len %s)) (<= (s_len %s) (s_cap %s)) (>= (s_base %s) 0) (=> (= (s_base %s) 0) (= (s_cap %s) 0)))", term, term, term, term, term, term, term)
	case *types.Pointer, *types.Chan, *types.Map, *types.Signature:
		return fmt.Sprintf("(>= %s 0)", term)
	case *types.Interface:
		base := fmt.Sprintf("(and (>= (i_tag %s) 0) (=> (= (i_tag %s) 0) (= (i_val %s) 0)))", term, term, term)
		if sealed := c.sealedTags(t, u); len(sealed) > 0 {
			var alts []string
			alts = append(alts, fmt.Sprintf("(= (i_tag %s) 0)", term))
			for _, tg := range sealed {
				alts = append(alts, fmt.Sprintf("(= (i_tag %s) %d)", term, tg))
			}
			return "(and " + base + " (or " + strings.Join(alts, " ") + "))"
		}
		return base
	}
	return ""
}

// sealedTags: an interface with an unexported method can only be implemented in its own package: the dynamic
// type of any of its values is one of that package's implementers (or nil).
func (c *Ctx) sealedTags(t types.Type, u *types.Interface) []int {
	n, ok := types.Unalias(t).(*types.Named)
	if !ok || n.Obj().Pkg() == nil {
		return nil
	}
	key := "sealed:" + types.TypeString(t, nil)
	if c.sealed == nil {
		c.sealed = map[string][]int{}
	}
	if v, ok := c.sealed[key]; ok {
		return v
	}
	unexported := false
	for i := 0; i < u.NumMethods(); i++ {
		if !u.Method(i).Exported() {
			unexported = true
		}
	}
	var out []int
	if unexported {
		sc := n.Obj().Pkg().Scope()
		for _, name := range sc.Names() {
			tn, ok := sc.Lookup(name).(*types.TypeName)
			if !ok || tn.IsAlias() {
				continue
			}
			if _, isIf := tn.Type().Underlying().(*types.Interface); isIf {
				continue
			}
			if types.Implements(tn.Type(), u) {
				out = append(out, c.typeTag(tn.Type()))
			}
			if pt := types.NewPointer(tn.Type()); types.Implements(pt, u) && !types.Implements(tn.Type(), u) {
				out = append(out, c.typeTag(pt))
			}
		}
	}
	c.sealed[key] = out
	return out
}

// ---------------------------------------------------------------------------
// interface boxing

func (c *Ctx) typeTag(t types.Type) int {
	k := types.TypeString(types.Unalias(t), nil)
	if id, ok := c.tags[k]; ok {
		return id
	}
	id := len(c.tags) + 1
	c.tags[k] = id
	return id
}

// box converts a value of concrete Go type to an Iface term.
func (c *Ctx) box(v Val) string {
	if v.GT == nil {
		if v.S == "Iface" {
			return v.T
		}
		return c.boxSort(v, 0)
	}
	if _, isIf := types.Unalias(v.GT).Underlying().(*types.Interface); isIf {
		return v.T
	}
	if b, ok := v.GT.(*types.Basic); ok && b.Kind() == types.UntypedNil {
		return "(mkIface 0 0)"
	}
	return c.boxSort(v, c.typeTag(v.GT))
}

func (c *Ctx) boxSort(v Val, tag int) string {
	if v.S == "Int" {
		return fmt.Sprintf("(mkIface %d %s)", tag, v.T)
	}
	bn, un := c.boxFns(v.S)
	t := c.define("bx", v.S, v.T)
	c.axiom(fmt.Sprintf("(= (%s (%s %s)) %s)", un, bn, t, t))
	return fmt.Sprintf("(mkIface %d (%s %s))", tag, bn, t)
}

func (c *Ctx) boxFns(srt string) (string, string) {
	k := sanitize(srt)
	bn, un := "box_"+k, "unbox_"+k
	c.declareFun(bn, []string{srt}, "Int")
	c.declareFun(un, []string{"Int"}, srt)
	return bn, un
}

// unbox extracts a value of Go type t from an Iface term.
func (c *Ctx) unbox(iface string, t types.Type) Val {
	s := c.sortOf(t)
	if s == "Int" {
		return Val{T: "(i_val " + iface + ")", S: s, GT: t}
	}
	_, un := c.boxFns(s)
	return Val{T: fmt.Sprintf("(%s (i_val %s))", un, iface), S: s, GT: t}
}

func (c *Ctx) strLit(s string) string {
	if n, ok := c.strLits[s]; ok {
		return n
	}
	n := fmt.Sprintf("str_lit_%d", len(c.strLits))
	c.declareConst(n, "Str")
	// distinct from all previous literals
	var prev []string
	for _, p := range c.strLits {
		prev = append(prev, p)
	}
	sort.Strings(prev)
	for _, p := range prev {
		c.axiom(fmt.Sprintf("(not (= %s %s))", n, p))
	}
	c.axiom(fmt.Sprintf("(= (strlen %s) %d)", n, len(s)))
	c.strLits[s] = n
	return n
}

// ---------------------------------------------------------------------------
// obligations

func (c *Ctx) oblige(st *State, class, anchor, phi, text string, pos token.Position) *Oblig {
	if c.dry {
		return &Oblig{ctx: c}
	}
	base := class + "@" + anchor
	c.anchorCnt[base]++
	name := c.FuncKey + "#" + base
	if n := c.anchorCnt[base]; n > 1 {
		name = fmt.Sprintf("%s~%d", name, n)
	}
	o := &Oblig{Name: name, Class: class, Anchor: anchor, Func: c.FuncKey, Pos: pos, NDecl: len(c.decls), NAssert: len(c.asserts), PC: st.pc, Phi: phi, Text: text, ctx: c, Props: c.props}
	c.obligs = append(c.obligs, o)
	return o
}

func quantified(s string) bool {
	return strings.Contains(s, "(forall ") || strings.Contains(s, "(exists ")
}

// QueryQF: the same query with every quantified assumption dropped (a weaker set of assumptions:
// unsat here implies unsat of the full query).
func (o *Oblig) QueryQF() string { return o.query(false, true) }

func (o *Oblig) Query(withModel bool) string { return o.query(withModel, false) }

func (o *Oblig) query(withModel, qf bool) string {
	c := o.ctx
	var b strings.Builder
	b.WriteString("(set-option :produce-models true)\n(set-logic ALL)\n")
	nd := o.NDecl
	if withModel {
		nd = len(c.decls) // later declarations are harmless and may be named by replay terms
	}
	for _, d := range c.decls[:nd] {
		b.WriteString(d)
		b.WriteByte('\n')
	}
	for _, a := range c.asserts[:o.NAssert] {
		if qf && quantified(a) {
			// keep the path structure of assumptions: pcN => pcM
			if strings.HasPrefix(a, "(assert (=> pc!") {
				rest := a[len("(assert (=> "):]
				sp := strings.Index(rest, " ")
				pcn := rest[:sp]
				if par, ok := c.pcParent[pcn]; ok {
					b.WriteString("(assert (=> " + pcn + " " + par + "))\n")
				}
			}
			continue
		}
		b.WriteString(a)
		b.WriteByte('\n')
	}
	// path-condition constants on the single-parent chain above o.PC are certainly true: state their facts at top level
	for pc := o.PC; pc != "" && pc != "true"; pc = c.pcParent[pc] {
		if phi, ok := c.pcPhi[pc]; ok {
			if qf && quantified(phi) {
				b.WriteString("(assert " + pc + ")\n")
				continue
			}
			b.WriteString("(assert " + pc + ")\n(assert " + phi + ")\n")
		} else {
			break
		}
	}
	b.WriteString("(assert " + o.PC + ")\n")
	if !o.Vacuity {
		b.WriteString("(assert (not " + o.Phi + "))\n")
	}
	if len(c.lazyAxioms) > 0 && !qf {
		body := b.String()
		for _, ax := range c.lazyAxioms {
			for _, sym := range axiomSymbols(ax) {
				if strings.Contains(body, "("+sym+" ") {
					b.WriteString("(assert " + ax + ")\n")
					break
				}
			}
		}
	}
	b.WriteString("(check-sat)\n")
	if withModel && len(o.Inputs) > 0 {
		b.WriteString("(get-value (")
		for _, m := range o.Inputs {
			b.WriteString(m.Term + " ")
		}
		b.WriteString("))\n")
	}
	return b.String()
}

// ghost events: one constructor, discriminated by ev_kind
var evKinds = map[string]int{"Send": 1, "Recv": 2, "Close": 3, "Trace": 4, "Spawn": 5, "Lock": 6, "Unlock": 7, "WgAdd": 8, "WgDone": 9, "WgWait": 10, "Call": 11, "Other": 12, "FnCall": 13}

const nilIface = "(mkIface 0 0)"

func evTerm(kind string, ch, val, a1, n string) string {
	if val == "" {
		val = nilIface
	}
	if a1 == "" {
		a1 = nilIface
	}
	if n == "" {
		n = "0"
	}
	return fmt.Sprintf("(mkEv %d %s %s %s %s)", evKinds[kind], ch, val, a1, n)
}

// axiomSymbols: the uninterpreted function symbols an axiom talks about.
func axiomSymbols(ax string) []string {
	var out []string
	for _, sym := range []string{"itoa", "str_concat", "strlen", "substr", "str_at"} {
		if strings.Contains(ax, "("+sym+" ") {
			out = append(out, sym)
		}
	}
	for _, f := range strings.FieldsFunc(ax, func(r rune) bool { return r == '(' || r == ')' || r == ' ' }) {
		if strings.HasPrefix(f, "sf_") || strings.HasPrefix(f, "pf_") {
			out = append(out, f)
		}
	}
	return out
}

func (c *Ctx) markDeclared(key string) {
	c.declared[key] = true
	c.declLog = append(c.declLog, key)
}

// mark / rollback: a dry pass may not leave declarations or assertions behind (only heap sorts, tags, literals).
type ctxMark struct{ decls, asserts, declLog, n int }

func (c *Ctx) mark() ctxMark { return ctxMark{len(c.decls), len(c.asserts), len(c.declLog), c.n} }

func (c *Ctx) rollback(m ctxMark) {
	var keepKeys []string
	for _, k := range c.declLog[m.declLog:] {
		if strings.HasPrefix(k, "sort:") || c.persist[k] {
			keepKeys = append(keepKeys, k) // datatype declarations stay: registered heap sorts mention them
			continue
		}
		delete(c.declared, k)
	}
	c.declLog = append(c.declLog[:m.declLog], keepKeys...)
	var keepDecls []string
	for _, d := range c.decls[m.decls:] {
		if strings.HasPrefix(d, "(declare-datatypes") || strings.HasPrefix(d, "(declare-sort") {
			keepDecls = append(keepDecls, d)
			continue
		}
		if strings.HasPrefix(d, "(declare-const ") {
			if f := strings.Fields(d); len(f) > 1 && c.persist[f[1]] {
				keepDecls = append(keepDecls, d)
			}
		}
	}
	c.decls = append(c.decls[:m.decls], keepDecls...)
	c.asserts = c.asserts[:m.asserts]
}
