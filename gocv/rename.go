package main

// Renamed locals. Contracts name parameters and local variables of the functions they are attached to (loop
// invariants have to). A harmless rename of such a variable would otherwise make the contract unbindable, which fails
// closed — an alarm on code in which the property holds. contracts/locals.json records, for every function declaration
// under contract, its variable definitions in source order (name, type) as they were when the contracts were written
// (`gocv locals` rewrites it). When a contract mentions a name the current function does not define, the recorded
// sequence is aligned with the current one (same types, in order); a recorded variable whose aligned partner has a
// new name is read as that partner. If the alignment is ambiguous nothing is translated and the contract fails to
// bind as before. A wrong guess cannot hide a violation silently: the clause is then about another variable of the same
// type and position and is proved or refuted for that one.

import (
	"encoding/json"
	"go/ast"
	"go/types"
	"os"
	"sort"
	"strconv"
)

type localDef struct {
	Name string `json:"n"`
	Type string `json:"t"`
}

func rootOf(fi *FuncInfo) *FuncInfo {
	for fi.Parent != nil {
		fi = fi.Parent
	}
	return fi
}

func (w *World) declLocals(fi *FuncInfo) []localDef {
	root := rootOf(fi)
	if root.Decl == nil || root.Pkg == nil || root.Pkg.TypesInfo == nil {
		return nil
	}
	type pd struct {
		pos int
		d   localDef
	}
	var all []pd
	qual := func(p *types.Package) string { return p.Name() }
	ast.Inspect(root.Decl, func(n ast.Node) bool {
		id, ok := n.(*ast.Ident)
		if !ok {
			return true
		}
		v, ok := root.Pkg.TypesInfo.Defs[id].(*types.Var)
		if !ok || v == nil || v.IsField() || id.Name == "_" {
			return true
		}
		all = append(all, pd{int(id.Pos()), localDef{id.Name, typeShape(v.Type(), qual)}})
		return true
	})
	sort.Slice(all, func(i, j int) bool { return all[i].pos < all[j].pos })
	out := make([]localDef, len(all))
	for i, p := range all {
		out[i] = p.d
	}
	return out
}

func (w *World) loadLocalSnapshot(path string) {
	b, err := os.ReadFile(path)
	if err != nil {
		return
	}
	_ = json.Unmarshal(b, &w.localSnap)
}

func (w *World) writeLocalSnapshot(path string) error {
	snap := map[string][]localDef{}
	for key, fi := range w.Funcs {
		if fi.Spec == nil || fi.Spec.Assumed {
			continue
		}
		root := rootOf(fi)
		if _, ok := snap[root.Key]; ok {
			continue
		}
		_ = key
		if ds := w.declLocals(root); len(ds) > 0 {
			snap[root.Key] = ds
		}
	}
	b, err := json.MarshalIndent(snap, "", " ")
	if err != nil {
		return err
	}
	return os.WriteFile(path, append(b, '\n'), 0o644)
}

// renamesOf: recorded name -> current name, for the declaration fi belongs to.
func (w *World) renamesOf(fi *FuncInfo) map[string]string {
	root := rootOf(fi)
	w.renameMu.Lock()
	defer w.renameMu.Unlock()
	if m, ok := w.renames[root.Key]; ok {
		return m
	}
	if w.renames == nil {
		w.renames = map[string]map[string]string{}
	}
	m := map[string]string{}
	w.renames[root.Key] = m
	old := w.localSnap[root.Key]
	if len(old) == 0 {
		return m
	}
	cur := w.declLocals(root)
	oldNames, curNames := map[string]bool{}, map[string]bool{}
	for _, d := range old {
		oldNames[d.Name] = true
	}
	for _, d := range cur {
		curNames[d.Name] = true
	}
	// alignment: longest common subsequence on types, preferring pairs that also agree on the name
	n, k := len(old), len(cur)
	score := make([][]int, n+1)
	for i := range score {
		score[i] = make([]int, k+1)
	}
	pair := func(i, j int) int {
		if old[i].Type != cur[j].Type {
			return 0
		}
		if old[i].Name == cur[j].Name {
			return 3
		}
		if curNames[old[i].Name] || oldNames[cur[j].Name] {
			return 0 // either name exists on the other side: not a rename of one into the other
		}
		return 2
	}
	for i := n - 1; i >= 0; i-- {
		for j := k - 1; j >= 0; j-- {
			best := score[i+1][j]
			if score[i][j+1] > best {
				best = score[i][j+1]
			}
			if p := pair(i, j); p > 0 && score[i+1][j+1]+p > best {
				best = score[i+1][j+1] + p
			}
			score[i][j] = best
		}
	}
	bad := map[string]bool{}
	for i, j := 0, 0; i < n && j < k; {
		p := pair(i, j)
		switch {
		case p > 0 && score[i][j] == score[i+1][j+1]+p:
			if p == 2 {
				if prev, ok := m[old[i].Name]; ok && prev != cur[j].Name {
					bad[old[i].Name] = true
				}
				m[old[i].Name] = cur[j].Name
			}
			i++
			j++
		case score[i][j] == score[i+1][j]:
			i++
		default:
			j++
		}
	}
	for name := range bad {
		delete(m, name)
	}
	// a recorded variable that was renamed must have lost its name everywhere, and the new name must be new
	for o, c := range m {
		if curNames[o] || oldNames[c] {
			delete(m, o)
		}
	}
	return m
}

// renamed: the current name of a variable the contracts know under `name`, or name itself.
func (fx *Fx) renamed(name string) string {
	if fx.fi == nil || fx.w == nil || len(fx.w.localSnap) == 0 {
		return name
	}
	if c, ok := fx.w.renamesOf(fx.fi)[name]; ok {
		return c
	}
	return name
}

// renameLocalsInPlace rewrites, in the (scratch!) repository the world was loaded from, every parameter, result and
// local variable of every function declaration under contract to name+suffix. Used by tools/benign-rename.sh to show
// that the checks stay quiet under a mass rename.
func (w *World) renameLocalsInPlace(suffix string) (int, error) {
	type edit struct{ off, n int }
	edits := map[string][]edit{}
	done := map[string]bool{}
	count := 0
	for _, fi := range w.Funcs {
		if fi.Spec == nil || fi.Spec.Assumed {
			continue
		}
		root := rootOf(fi)
		if done[root.Key] || root.Decl == nil || root.Pkg == nil {
			continue
		}
		done[root.Key] = true
		info := root.Pkg.TypesInfo
		objs := map[types.Object]bool{}
		ast.Inspect(root.Decl, func(n ast.Node) bool {
			if id, ok := n.(*ast.Ident); ok && id.Name != "_" {
				if v, ok := info.Defs[id].(*types.Var); ok && v != nil && !v.IsField() {
					objs[v] = true
				}
			}
			return true
		})
		ast.Inspect(root.Decl, func(n ast.Node) bool {
			id, ok := n.(*ast.Ident)
			if !ok {
				return true
			}
			var o types.Object = info.Defs[id]
			if o == nil {
				o = info.Uses[id]
			}
			if o != nil && objs[o] {
				p := w.Fset.Position(id.Pos())
				edits[p.Filename] = append(edits[p.Filename], edit{p.Offset, len(id.Name)})
				count++
			}
			return true
		})
	}
	for file, es := range edits {
		b, err := os.ReadFile(file)
		if err != nil {
			return count, err
		}
		sort.Slice(es, func(i, j int) bool { return es[i].off > es[j].off })
		for _, e := range es {
			b = append(b[:e.off+e.n], append([]byte(suffix), b[e.off+e.n:]...)...)
		}
		if err := os.WriteFile(file, b, 0o644); err != nil {
			return count, err
		}
	}
	return count, nil
}

// aliasRecordedNames: where a callee's parameters, receiver and results are bound under their current names (call
// sites), the names its contract was written against denote the same values.
func (w *World) aliasRecordedNames(key string, bound map[string]Val) {
	fi := w.Funcs[key]
	if fi == nil || len(w.localSnap) == 0 {
		return
	}
	for o, c := range w.renamesOf(fi) {
		if v, ok := bound[c]; ok {
			if _, has := bound[o]; !has {
				bound[o] = v
			}
		}
	}
}

// recordedNames: current name -> recorded name, for the declaration under verification.
func (fx *Fx) recordedNames() map[string]string {
	if fx.fi == nil || fx.w == nil || len(fx.w.localSnap) == 0 {
		return nil
	}
	m := fx.w.renamesOf(fx.fi)
	if len(m) == 0 {
		return nil
	}
	inv := make(map[string]string, len(m))
	for o, c := range m {
		inv[c] = o
	}
	return inv
}

// typeShape: a type's text without the parameter and result names of the function types in it (renaming a parameter
// must not change the recorded type of a variable whose type mentions the function type).
func typeShape(t types.Type, q types.Qualifier) string {
	switch u := t.(type) {
	case *types.Pointer:
		return "*" + typeShape(u.Elem(), q)
	case *types.Slice:
		return "[]" + typeShape(u.Elem(), q)
	case *types.Array:
		return "[" + strconv.FormatInt(u.Len(), 10) + "]" + typeShape(u.Elem(), q)
	case *types.Map:
		return "map[" + typeShape(u.Key(), q) + "]" + typeShape(u.Elem(), q)
	case *types.Chan:
		d := "chan "
		if u.Dir() == types.SendOnly {
			d = "chan<- "
		} else if u.Dir() == types.RecvOnly {
			d = "<-chan "
		}
		return d + typeShape(u.Elem(), q)
	case *types.Signature:
		s := "func("
		for i := 0; i < u.Params().Len(); i++ {
			if i > 0 {
				s += ", "
			}
			if u.Variadic() && i == u.Params().Len()-1 {
				s += "..."
			}
			s += typeShape(u.Params().At(i).Type(), q)
		}
		s += ")"
		if u.Results().Len() > 0 {
			s += " ("
			for i := 0; i < u.Results().Len(); i++ {
				if i > 0 {
					s += ", "
				}
				s += typeShape(u.Results().At(i).Type(), q)
			}
			s += ")"
		}
		return s
	}
	return types.TypeString(t, q)
}
