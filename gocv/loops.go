package main

import (
	"fmt"
	"go/ast"
	"go/token"
	"go/types"
	"sort"
	"strings"
)

type loopParts struct {
	node    ast.Node
	label   string
	ord     int
	spec    *LoopSpec
	keyObj  types.Object // range key bound to the hidden counter in invariants
	counter string       // ghost name of hidden counter ("" for plain for loops)
	condF   func(st *State) string
	preBody func(st *State)
	body    *ast.BlockStmt
	postF   func(st *State)
	atHead  func(st *State) // facts established at every loop head (after havoc)
	initCtr string
	visited string
	visSort string
}

func (fx *Fx) loopSpec(ord int) *LoopSpec {
	if fx.spec == nil {
		return nil
	}
	return fx.spec.Loops[ord]
}

func (fx *Fx) execFor(st *State, s *ast.ForStmt) {
	label := fx.takeLabel()
	if s.Init != nil {
		fx.exec(st, s.Init)
	}
	fx.loopOrd++
	fx.maxLoopOrd = max(fx.maxLoopOrd, fx.loopOrd)
	lp := &loopParts{node: s, label: label, ord: fx.loopOrd, spec: fx.loopSpec(fx.loopOrd), body: s.Body}
	if s.Cond != nil {
		lp.condF = func(t *State) string { return fx.eval(t, s.Cond).T }
	}
	if s.Post != nil {
		lp.postF = func(t *State) { fx.exec(t, s.Post) }
	}
	// counting loops `for i := a; …; i++` whose body leaves i alone: a <= i at every loop head, without an
	// annotation (what a range loop's hidden counter gives for free; keeps a rewrite of one form into the other quiet)
	if obj, initTerm := fx.countingLoopVar(st, s); obj != nil {
		// rk<N> (the number of completed iterations, as for a range loop) is i - a
		if fx.countLoops == nil {
			fx.countLoops = map[string]countLoop{}
		}
		fx.countLoops[fmt.Sprintf("rk%d", lp.ord)] = countLoop{obj, initTerm}
		// upper bound: with a condition `i < E` (or `i != E`, `i <= E`) whose E the loop cannot change, i never passes E
		// unless it started beyond it (then the body never runs and i keeps its initial value)
		var bound ast.Expr
		strict := true
		if be, ok := s.Cond.(*ast.BinaryExpr); ok {
			if lid, ok := unparen(be.X).(*ast.Ident); ok && fx.info.Uses[lid] == obj {
				switch be.Op {
				case token.LSS, token.NEQ:
					bound = be.Y
				case token.LEQ:
					bound, strict = be.Y, false
				}
				if be.Op == token.NEQ {
					bound = nil // i != E does not stop beyond E
				}
			}
		}
		if bound != nil && !fx.stableIn(fx.w.modsOfNode(fx, s), bound) {
			bound = nil
		}
		lp.atHead = func(h *State) {
			cur, ok := h.vars[obj]
			if !ok {
				return
			}
			h.assume(fmt.Sprintf("(>= %s %s)", cur, initTerm))
			if bound != nil {
				func() {
					defer func() { recover() }()
					e := fx.eval(h, bound) // (a stable, side-effect free expression: evaluating it adds only facts about its value)
					if e.S != "Int" {
						return
					}
					lim := e.T
					if !strict {
						lim = "(+ " + lim + " 1)"
					}
					h.assume(fmt.Sprintf("(or (<= %s %s) (= %s %s))", cur, lim, cur, initTerm))
				}()
			}
		}
	}
	fx.runLoop(st, lp)
}

// stableIn: the value of e cannot be changed by code with the effects ms (constants, unassigned locals, len of such
// slices, fields of such pointers whose heaps ms does not touch, sums and differences of those).
func (fx *Fx) stableIn(ms *modSet, e ast.Expr) bool {
	if ms.all {
		return false
	}
	switch x := unparen(e).(type) {
	case *ast.BasicLit:
		return true
	case *ast.Ident:
		switch o := fx.info.Uses[x].(type) {
		case *types.Const:
			return true
		case *types.Var:
			return !isGlobal(o) && !ms.vars[o] && !fx.c.boxedVars[o]
		}
		return false
	case *ast.BinaryExpr:
		if x.Op == token.ADD || x.Op == token.SUB {
			return fx.stableIn(ms, x.X) && fx.stableIn(ms, x.Y)
		}
		return false
	case *ast.CallExpr:
		if id, ok := unparen(x.Fun).(*ast.Ident); ok && len(x.Args) == 1 {
			if b, ok := fx.info.Uses[id].(*types.Builtin); ok && b.Name() == "len" {
				switch types.Unalias(fx.info.TypeOf(x.Args[0])).Underlying().(type) {
				case *types.Slice, *types.Array, *types.Basic:
					return fx.stableIn(ms, x.Args[0])
				}
			}
		}
		return false
	case *ast.SelectorExpr:
		sel := fx.info.Selections[x]
		if sel == nil || sel.Kind() != types.FieldVal || !fx.stableIn(ms, x.X) {
			return false
		}
		cur := sel.Recv()
		for _, idx := range sel.Index() {
			st, named, _ := structOf(cur)
			if st == nil {
				return false
			}
			if ms.heaps[fieldKey(named, st.Field(idx).Name())] {
				return false
			}
			cur = st.Field(idx).Type()
		}
		return true
	}
	return false
}

type countLoop struct {
	obj  types.Object
	init string
}

func (fx *Fx) countingLoopVar(st *State, s *ast.ForStmt) (types.Object, string) {
	as, ok := s.Init.(*ast.AssignStmt)
	if !ok || as.Tok != token.DEFINE || len(as.Lhs) != 1 {
		return nil, ""
	}
	id, ok := as.Lhs[0].(*ast.Ident)
	if !ok {
		return nil, ""
	}
	obj := fx.info.Defs[id]
	if obj == nil || fx.c.boxedVars[obj] {
		return nil, ""
	}
	if b, ok := types.Unalias(obj.Type()).Underlying().(*types.Basic); !ok || b.Info()&types.IsInteger == 0 {
		return nil, ""
	}
	inc, ok := s.Post.(*ast.IncDecStmt)
	if !ok || inc.Tok != token.INC {
		return nil, ""
	}
	if pid, ok := inc.X.(*ast.Ident); !ok || fx.info.Uses[pid] != obj {
		return nil, ""
	}
	touched := false
	ast.Inspect(s.Body, func(n ast.Node) bool {
		switch x := n.(type) {
		case *ast.AssignStmt:
			for _, l := range x.Lhs {
				if lid, ok := l.(*ast.Ident); ok && fx.info.Uses[lid] == obj {
					touched = true
				}
			}
		case *ast.IncDecStmt:
			if lid, ok := x.X.(*ast.Ident); ok && fx.info.Uses[lid] == obj {
				touched = true
			}
		case *ast.UnaryExpr:
			if x.Op == token.AND {
				if lid, ok := x.X.(*ast.Ident); ok && fx.info.Uses[lid] == obj {
					touched = true
				}
			}
		case *ast.RangeStmt:
			for _, e := range []ast.Expr{x.Key, x.Value} {
				if lid, ok := e.(*ast.Ident); ok && fx.info.Uses[lid] == obj {
					touched = true
				}
			}
		}
		return !touched
	})
	if touched {
		return nil, ""
	}
	t, ok := st.vars[obj]
	if !ok {
		return nil, ""
	}
	return obj, t
}

func (fx *Fx) setCounter(st *State, lp *loopParts, term string) {
	st.ghost[lp.counter] = term
	if lp.keyObj != nil {
		st.vars[lp.keyObj] = term
	}
}

func (fx *Fx) execRange(st *State, s *ast.RangeStmt) {
	label := fx.takeLabel()
	c := fx.c
	fx.loopOrd++
	fx.maxLoopOrd = max(fx.maxLoopOrd, fx.loopOrd)
	lp := &loopParts{node: s, label: label, ord: fx.loopOrd, spec: fx.loopSpec(fx.loopOrd), body: s.Body}
	lp.counter = fmt.Sprintf("rk%d", lp.ord)
	xt := types.Unalias(fx.info.TypeOf(s.X))
	define := s.Tok == token.DEFINE
	var keyObj, valObj types.Object
	if define {
		if id, ok := s.Key.(*ast.Ident); ok && id.Name != "_" {
			keyObj = fx.info.Defs[id]
		}
		if s.Value != nil {
			if id, ok := s.Value.(*ast.Ident); ok && id.Name != "_" {
				valObj = fx.info.Defs[id]
			}
		}
	}
	assignKV := func(t *State, k, v *Val) {
		if define {
			if keyObj != nil && k != nil {
				fx.declVar(t, keyObj, *k)
			}
			if valObj != nil && v != nil {
				fx.declVar(t, valObj, *v)
			}
			return
		}
		if s.Key != nil && k != nil {
			loc := fx.lvalue(t, s.Key)
			fx.writeLoc(t, loc, fx.convertTo(t, *k, loc.locType()))
		}
		if s.Value != nil && v != nil {
			loc := fx.lvalue(t, s.Value)
			fx.writeLoc(t, loc, fx.convertTo(t, *v, loc.locType()))
		}
	}
	switch u := xt.Underlying().(type) {
	case *types.Slice, *types.Basic, *types.Array:
		var n string
		var elemAt func(t *State, k string) *Val
		switch uu := u.(type) {
		case *types.Slice:
			x := fx.eval(st, s.X)
			x.T = c.define("rng", "Slice", x.T)
			fx.wfSlice(st, x.T)
			n = "(s_len " + x.T + ")"
			elemAt = func(t *State, k string) *Val {
				l := &Loc{kind: locElem, key: "E:" + typeKey(uu.Elem()), srt: c.sortOf(uu.Elem()), ref: "(s_base " + x.T + ")", idx: fmt.Sprintf("(+ (s_off %s) %s)", x.T, k), T: uu.Elem()}
				v := fx.readLoc(t, l)
				return &v
			}
		case *types.Array:
			x := fx.eval(st, s.X)
			n = fmt.Sprint(uu.Len())
			elemAt = func(t *State, k string) *Val {
				return &Val{T: fmt.Sprintf("(select %s %s)", x.T, k), S: c.sortOf(uu.Elem()), GT: uu.Elem()}
			}
		case *types.Basic:
			if uu.Info()&types.IsInteger == 0 {
				fx.unsup(s, "range over %s", xt)
			}
			x := fx.eval(st, s.X)
			n = c.define("rngn", "Int", x.T)
		}
		if keyObj != nil && !c.boxedVars[keyObj] {
			lp.keyObj = keyObj
		}
		lp.initCtr = "0"
		lp.atHead = func(t *State) {
			k := t.ghost[lp.counter]
			t.assume(fmt.Sprintf("(and (<= 0 %s) (<= %s %s))", k, k, n))
			if fx.c.sortOf(types.Typ[types.Int]) == "Int" {
				t.assume(fmt.Sprintf("(<= %s 9223372036854775807)", n))
			}
		}
		lp.condF = func(t *State) string { return fmt.Sprintf("(< %s %s)", t.ghost[lp.counter], n) }
		lp.preBody = func(t *State) {
			k := t.ghost[lp.counter]
			kv := Val{T: k, S: "Int", GT: types.Typ[types.Int]}
			var vv *Val
			if elemAt != nil && s.Value != nil {
				vv = elemAt(t, k)
			}
			if lp.keyObj != nil {
				// keep the binding to the counter; a value variable is declared as usual
				t.vars[lp.keyObj] = k
				assignKV(t, nil, vv)
				if !define {
					assignKV(t, &kv, nil)
				}
			} else {
				assignKV(t, &kv, vv)
			}
		}
		lp.postF = func(t *State) {
			fx.setCounter(t, lp, c.define("rk", "Int", fmt.Sprintf("(+ %s 1)", t.ghost[lp.counter])))
		}
	case *types.Map:
		m := fx.eval(st, s.X)
		ks, vs := c.sortOf(u.Key()), c.sortOf(u.Elem())
		key := typeKey(xt)
		// iteration counter: a range over a map takes one turn per entry the map had when the loop started (Go
		// guarantees this when the body does not insert or delete; like the visited set this is part of the map model)
		lp.initCtr = "0"
		cntAtEntry := c.define("mcnt", "Int", fmt.Sprintf("(select %s %s)", st.heap("MC:"+key, "(Array Int Int)"), m.T))
		st.assume(fmt.Sprintf("(and (>= %s 0) (=> (= %s 0) (= %s 0)))", cntAtEntry, m.T, cntAtEntry))
		more := ""
		// ghost: the set of keys visited so far (each key of the map is visited exactly once)
		visSort := "(Array " + ks + " Bool)"
		visName := fmt.Sprintf("b:mvis%d", lp.ord)
		lp.visited = visName
		lp.visSort = visSort
		st.ghostSorted(visName, visSort, fmt.Sprintf("((as const %s) false)", visSort))
		domAtEntry := fmt.Sprintf("(select %s %s)", st.heap("MD:"+key, "(Array Int (Array "+ks+" Bool))"), m.T)
		lp.atHead = func(t *State) {
			more = c.freshConst("more", "Bool")
			vis := c.freshConst("mvis", visSort)
			t.ghostSorted(visName, visSort, vis)
			// only keys of the map are ever visited; the loop goes on exactly while an unvisited key remains
			t.assume(fmt.Sprintf("(forall ((k!v %s)) (! (=> (select %s k!v) (select %s k!v)) :pattern ((select %s k!v))))", ks, vis, domAtEntry, vis))
			t.assume(fmt.Sprintf("(=> (not %s) (forall ((k!v %s)) (! (=> (select %s k!v) (select %s k!v)) :pattern ((select %s k!v)))))", more, ks, domAtEntry, vis, domAtEntry))
			k := t.ghost[lp.counter]
			t.assume(fmt.Sprintf("(and (<= 0 %s) (<= %s %s) (= %s (< %s %s)))", k, k, cntAtEntry, more, k, cntAtEntry))
		}
		lp.condF = func(t *State) string { return more }
		lp.postF = func(t *State) {
			fx.setCounter(t, lp, c.define("rk", "Int", fmt.Sprintf("(+ %s 1)", t.ghost[lp.counter])))
		}
		lp.preBody = func(t *State) {
			k := c.freshConst("mk", ks)
			if ra := c.rangeAssume(k, u.Key()); ra != "" {
				t.assume(ra)
			}
			hd := t.heap("MD:"+key, "(Array Int (Array "+ks+" Bool))")
			hv := t.heap("MV:"+key, "(Array Int (Array "+ks+" "+vs+"))")
			vis := t.ghost[visName]
			t.assume(fmt.Sprintf("(and (select %s %s) (not (select %s %s)))", domAtEntry, k, vis, k))
			t.ghostSorted(visName, visSort, c.define("mvis", visSort, fmt.Sprintf("(store %s %s true)", vis, k)))
			t.assume(fmt.Sprintf("(and (not (= %s 0)) (select (select %s %s) %s))", m.T, hd, m.T, k))
			kv := Val{T: k, S: ks, GT: u.Key()}
			vv := fx.loaded(t, Val{T: fmt.Sprintf("(select (select %s %s) %s)", hv, m.T, k), S: vs, GT: u.Elem()})
			var vp *Val
			if s.Value != nil {
				vp = &vv
			}
			var kp *Val
			if s.Key != nil {
				kp = &kv
			}
			assignKV(t, kp, vp)
		}
	case *types.Chan:
		ch := fx.eval(st, s.X)
		lp.counter = ""
		more := ""
		lp.atHead = func(t *State) { more = c.freshConst("more", "Bool") }
		lp.condF = func(t *State) string { return more }
		lp.preBody = func(t *State) {
			v, _ := fx.chanRecv(t, ch, s)
			var kp *Val
			if s.Key != nil {
				kp = &v
			}
			assignKV(t, kp, nil)
		}
	default:
		fx.unsup(s, "range over %s", xt)
	}
	fx.runLoop(st, lp)
}

func (fx *Fx) runLoop(st *State, lp *loopParts) {
	c := fx.c
	tag := fmt.Sprintf("loop%d", lp.ord)
	var invs, iters []*Clause
	if lp.spec != nil {
		invs, iters = lp.spec.Invariants, lp.spec.Iter
		if len(lp.spec.Step) > 0 {
			iters = append(append([]*Clause{}, iters...), lp.spec.Step...)
		}
	}
	if lp.counter != "" {
		fx.setCounter(st, lp, lp.initCtr)
	}
	if fx.loopEntries == nil {
		fx.loopEntries = map[string]*State{}
	}
	fx.loopEntries[fmt.Sprint(lp.ord)] = st.clone()
	defer delete(fx.loopEntries, fmt.Sprint(lp.ord))
	// 1. invariants on entry
	for k, inv := range invs {
		env := fx.specEnv(st, fx.entry, lp.body.Lbrace+1)
		phi := fx.specBool(env, inv.Expr)
		c.oblige(st, "inv-entry", clauseAnchor(tag, inv, k), phi, inv.Text, fx.w.pos(lp.node.Pos()))
		st.assume(phi)
	}
	// 2. havoc what the loop may change.  A dry pass over the body first, so that every heap the body touches has
	// its sort registered (the havoc below and `unchanged()` in invariants then relate the right constants).
	fx.dryLoopBody(st, lp)
	ms := fx.w.modsOfNode(fx, lp.node)
	head := st
	var modVars []types.Object
	for obj := range ms.vars {
		modVars = append(modVars, obj)
	}
	sort.Slice(modVars, func(i, j int) bool {
		if modVars[i].Pos() != modVars[j].Pos() {
			return modVars[i].Pos() < modVars[j].Pos()
		}
		return modVars[i].Name() < modVars[j].Name()
	})
	for _, obj := range modVars {
		if _, ok := head.vars[obj]; !ok {
			continue
		}
		if obj == lp.keyObj {
			continue
		}
		if c.boxedVars[obj] {
			continue // the cell's content is havoced through its heap key
		}
		srt := c.sortOf(obj.Type())
		n := c.freshConst(obj.Name(), srt)
		if ra := c.rangeAssume(n, obj.Type()); ra != "" {
			head.assume(ra)
		}
		head.vars[obj] = n
	}
	if ms.all {
		head.havocAllHeaps()
	} else {
		for _, k := range sortedBoolKeys(ms.heaps) {
			if k == "ONCE" {
				continue
			}
			if (k == "CNT" || k == "CNC" || k == "LV") && (ms.emits || ms.opaque) {
				continue // havocLog below relates them to their values before the loop
			}
			head.havocHeap(k)
		}
		for _, k := range sortedBoolKeys(ms.fresh) {
			if ms.heaps[k] {
				continue
			}
			srt, known := c.heapSorts()[k]
			if !known {
				continue
			}
			old := head.heap(k, srt)
			head.havocHeap(k)
			nw := head.heap(k, srt)
			// objects that existed before the loop are not touched by writes to memory the loop allocates
			head.assume(fmt.Sprintf("(forall ((r!f Int)) (! (=> (and (< 0 r!f) (<= r!f %s)) (= (select %s r!f) (select %s r!f))) :pattern ((select %s r!f))))", head.alloc, nw, old, nw))
		}
	}
	if ms.emits || ms.opaque || ms.all {
		head.havocLog()
	}
	if ms.fncall || ms.all {
		head.havocHeap("NC")
		head.havocHeap("NCT")
	}
	if ms.allocs || ms.all {
		head.havocAlloc()
	}
	for g := range head.ghost {
		if g == "selcase" || g == "tcase" {
			delete(head.ghost, g)
		}
	}
	if lp.counter != "" {
		fx.setCounter(head, lp, c.freshConst("rk", "Int"))
	}
	if lp.atHead != nil {
		lp.atHead(head)
	}
	for _, inv := range invs {
		env := fx.specEnv(head, fx.entry, lp.body.Lbrace+1)
		head.assume(fx.specBool(env, inv.Expr))
	}
	loopHead := head.clone()
	if fx.loopHeads == nil {
		fx.loopHeads = map[string]*State{}
	}
	fx.loopHeads[fmt.Sprint(lp.ord)] = loopHead
	defer delete(fx.loopHeads, fmt.Sprint(lp.ord))
	// 3. condition
	bodySt := head.clone()
	exitSt := head
	if lp.condF != nil {
		cond := c.define("lc", "Bool", lp.condF(bodySt))
		// side effects of the condition (rare) are kept in bodySt only; conditions in the code under contract are pure
		bodySt.assume(cond)
		exitSt.assume("(not " + cond + ")")
	} else {
		fx.kill(exitSt)
	}
	// 4. body
	jc := &jumpCtx{label: lp.label, isLoop: true}
	if len(lp.body.List) > 0 {
		if ls, ok := lp.body.List[0].(*ast.LabeledStmt); ok {
			jc.gotoLabel = ls.Label.Name
		}
	}
	fx.jumps = append(fx.jumps, jc)
	savedOrd := fx.loopOrd
	_ = savedOrd
	if lp.preBody != nil {
		lp.preBody(bodySt)
	}
	if lp.spec != nil && len(lp.spec.Step) > 0 {
		fx.stepLoops = append(fx.stepLoops, &stepLoop{lp: lp, head: loopHead, depth: len(fx.ret)})
	}
	fx.execBlock(bodySt, lp.body.List)
	if lp.spec != nil && len(lp.spec.Step) > 0 {
		fx.stepLoops = fx.stepLoops[:len(fx.stepLoops)-1]
	}
	fx.jumps = fx.jumps[:len(fx.jumps)-1]
	// back edges are checked one by one (the normal end of the body, then each continue / goto in source order):
	// smaller queries than on the merged state, and per-iteration clauses may mention locals that are live on one edge only
	type edge struct {
		st   *State
		name string
	}
	edges := []edge{{bodySt, "end"}}
	for i, cs := range jc.continues {
		edges = append(edges, edge{cs, fmt.Sprintf("continue%d", i+1)})
	}
	applied := make([]int, len(iters))
	liveEdges := 0
	for _, e := range edges {
		back := e.st
		if back.dead {
			continue
		}
		liveEdges++
		sfx := ""
		if len(edges) > 1 && e.name != "end" {
			sfx = "." + e.name
		}
		vb := c.oblige(back, "vacuity", tag+".body"+sfx, "true", "some execution completes an iteration of the loop", fx.w.pos(lp.node.Pos()))
		vb.Vacuity = true
		if lp.postF != nil {
			lp.postF(back)
		}
		for k, inv := range invs {
			env := fx.specEnv(back, fx.entry, lp.body.Lbrace+1)
			parts := splitConj(inv.Expr)
			for pi, pe := range parts {
				a := clauseAnchor(tag, inv, k)
				if len(parts) > 1 {
					a = fmt.Sprintf("%s.c%d", a, pi+1)
				}
				c.oblige(back, "inv-keep", a+sfx, fx.specBool(env, pe), inv.Text, fx.w.pos(lp.node.Pos()))
			}
			back.assume(fx.specBool(env, inv.Expr))
		}
		if lp.spec != nil && lp.spec.Cancels != "" {
			// a message loop that observed the cancellation of its context does not take another turn
			ex, perr := parseSpecExpr(fmt.Sprintf("!(isRecv(ev(old(evlen))) && evch(ev(old(evlen))) == ctxdone(%s))", lp.spec.Cancels))
			if perr != nil {
				panic(perr)
			}
			if phi, ok := fx.specBoolIfInScope(fx.specEnv(back, loopHead, lp.body.Lbrace+1), ex); ok {
				c.oblige(back, "cancel", tag+".stops-on-cancel"+sfx, phi, "after receiving from "+lp.spec.Cancels+".Done() the loop does not iterate again", fx.w.pos(lp.node.Pos()))
			}
		}
		for k, it := range iters {
			parts := splitConj(it.Expr)
			for pi, pe := range parts {
				a := clauseAnchor(tag, it, k)
				if len(parts) > 1 {
					a = fmt.Sprintf("%s.c%d", a, pi+1)
				}
				phi, ok := fx.specBoolIfInScope(fx.specEnv(back, loopHead, lp.body.Lbrace+1), pe)
				if !ok {
					continue // mentions a local that is not live on this edge
				}
				applied[k]++
				c.oblige(back, "iter", a+sfx, phi, it.Text, fx.w.pos(lp.node.Pos()))
			}
		}
	}
	if liveEdges > 0 && !c.dry {
		for k, it := range iters {
			if applied[k] == 0 {
				sfail("iter clause %q applies to no back edge of loop %d (a variable it mentions is live on none)", it.Text, lp.ord)
			}
		}
	}
	if lp.spec != nil && lp.spec.SelectOnly && !c.dry {
		// the loop waits only in its selects, where every alternative is watched: a receive statement in a case body
		// would park the goroutine on one channel while the others are ignored
		comm := map[ast.Node]bool{}
		nrecv := 0
		ast.Inspect(lp.body, func(n ast.Node) bool {
			switch x := n.(type) {
			case *ast.FuncLit:
				return false
			case *ast.CommClause:
				if x.Comm != nil {
					comm[x.Comm] = true
				}
			case *ast.ExprStmt:
				if comm[x] {
					for _, st := range []ast.Node{} {
						_ = st
					}
					return false
				}
			case *ast.AssignStmt:
				if comm[x] {
					return false
				}
			case *ast.UnaryExpr:
				if x.Op == token.ARROW {
					nrecv++
					c.oblige(loopHead, "blocking", fmt.Sprintf("%s.receive%d-outside-select", tag, nrecv), "false", "the loop blocks only in its selects: no receive statement outside their comm clauses ("+fx.exprText(x)+")", fx.w.pos(x.Pos()))
				}
			}
			return true
		})
		if nrecv == 0 {
			c.oblige(loopHead, "blocking", tag+".blocks-only-in-select", "true", "the loop blocks only in its selects", fx.w.pos(lp.node.Pos()))
		}
	}
	if lp.spec != nil && len(lp.spec.Offers) > 0 && !c.dry {
		// every select of the loop (function literals excluded) has a case receiving from the named channel expression
		for _, want := range lp.spec.Offers {
			nsel := 0
			ast.Inspect(lp.body, func(n ast.Node) bool {
				switch x := n.(type) {
				case *ast.FuncLit:
					return false
				case *ast.SelectStmt:
					nsel++
					has := "false"
					for _, cl := range x.Body.List {
						cc := cl.(*ast.CommClause)
						var rx ast.Expr
						switch cm := cc.Comm.(type) {
						case *ast.ExprStmt:
							rx = cm.X
						case *ast.AssignStmt:
							rx = cm.Rhs[0]
						}
						if rx != nil {
							if u, ok := unparen(rx).(*ast.UnaryExpr); ok && u.Op == token.ARROW && fx.exprText(u.X) == want {
								has = "true"
							}
						}
					}
					c.oblige(loopHead, "blocking", fmt.Sprintf("%s.select%d-offers(<-%s)", tag, nsel, want), has, "every select the loop blocks in has a case <-"+want, fx.w.pos(x.Pos()))
				}
				return true
			})
			if nsel == 0 {
				c.oblige(loopHead, "blocking", tag+".offers(<-"+want+")", "false", "the loop blocks in a select that has a case <-"+want, fx.w.pos(lp.node.Pos()))
			}
		}
	}
	if lp.spec != nil && lp.spec.Cancels != "" && !c.dry {
		// every select the loop blocks in (at the top level of its body) offers the cancellation alternative
		nsel := 0
		var sels []*ast.SelectStmt
		ast.Inspect(lp.body, func(n ast.Node) bool {
			switch x := n.(type) {
			case *ast.FuncLit:
				return false // another goroutine's or a callback's code: under its own contract
			case *ast.SelectStmt:
				sels = append(sels, x)
			}
			return true
		})
		for _, sel := range sels {
			nsel++
			has := "false"
			for _, cl := range sel.Body.List {
				cc := cl.(*ast.CommClause)
				var rx ast.Expr
				switch cm := cc.Comm.(type) {
				case *ast.ExprStmt:
					rx = cm.X
				case *ast.AssignStmt:
					rx = cm.Rhs[0]
				}
				if rx != nil {
					if u, ok := unparen(rx).(*ast.UnaryExpr); ok {
						if call, ok := unparen(u.X).(*ast.CallExpr); ok {
							if se, ok := unparen(call.Fun).(*ast.SelectorExpr); ok && se.Sel.Name == "Done" {
								if id, ok := unparen(se.X).(*ast.Ident); ok && id.Name == fx.renamed(lp.spec.Cancels) {
									has = "true"
								}
							}
						}
					}
				}
				if cc.Comm == nil {
					has = "true" // a default branch: the select does not block
				}
			}
			c.oblige(loopHead, "cancel", fmt.Sprintf("%s.select%d-offers-cancellation", tag, nsel), has, "every select the loop can block in (nested ones included) has a case <-"+lp.spec.Cancels+".Done()", fx.w.pos(sel.Pos()))
		}
		if nsel == 0 {
			c.oblige(loopHead, "cancel", tag+".blocks-in-a-select", "false", "a cancellable message loop blocks in a select at the top level of its body", fx.w.pos(lp.node.Pos()))
		}
	}
	// 5. after the loop
	if lp.spec != nil && len(lp.spec.Exit) > 0 {
		for xi, x := range append([]*State{exitSt}, jc.breaks...) {
			if x == nil || x.dead {
				continue
			}
			sfx := ""
			if xi > 0 {
				sfx = fmt.Sprintf(".break%d", xi)
			}
			for k, ec := range lp.spec.Exit {
				phi, ok := fx.specBoolIfInScope(fx.specEnv(x, fx.entry, lp.body.Lbrace+1), ec.Expr)
				if !ok {
					continue
				}
				c.oblige(x, "loop-exit", clauseAnchor(tag, ec, k)+sfx, phi, ec.Text, fx.w.pos(lp.node.Pos()))
			}
		}
	}
	if fx.tailStmt != nil && fx.tailStmt == lp.node && !c.dry {
		// the loop is the last statement of the function (at most a bare return follows): every way out of the loop
		// returns on its own, so that postconditions are checked per path instead of on a merged state
		for _, x := range append([]*State{exitSt}, jc.breaks...) {
			if x != nil && !x.dead {
				if lp.keyObj != nil {
					delete(x.vars, lp.keyObj)
				}
				fx.doReturn(x)
			}
		}
		fx.kill(st)
		return
	}
	if fx.pathMode && !c.dry {
		// one way out of the loop per run
		var outs []*State
		for _, x := range append([]*State{exitSt}, jc.breaks...) {
			if x != nil && !x.dead {
				outs = append(outs, x)
			}
		}
		if len(outs) == 0 {
			fx.kill(st)
			return
		}
		*st = *outs[fx.decide(len(outs))]
		if lp.keyObj != nil {
			delete(st.vars, lp.keyObj)
		}
		return
	}
	after := mergeStates(c, append([]*State{exitSt}, jc.breaks...))
	*st = *after
	if lp.keyObj != nil && !st.dead {
		delete(st.vars, lp.keyObj)
	}
}

func clauseAnchor(tag string, cl *Clause, k int) string {
	if cl.Name != "" {
		return tag + "." + cl.Name
	}
	return fmt.Sprintf("%s.%d", tag, k+1)
}

func (fx *Fx) dryLoopBody(st *State, lp *loopParts) {
	c := fx.c
	if c.dry {
		return // already inside a dry pass: nested loops are visited by it
	}
	c.dry = true
	cm := c.mark()
	savedLits := map[string]string{}
	for k, v := range c.strLits {
		savedLits[k] = v
	}
	savedOrd, savedJumps, savedLocks, savedLabel := fx.loopOrd, fx.jumps, len(c.locks), fx.pendingLabel
	var savedRets []int
	for _, r := range fx.ret {
		savedRets = append(savedRets, len(r.returns))
	}
	defer func() {
		c.dry = false
		c.rollback(cm)
		c.strLits = savedLits
		for k := range c.specFnDone {
			if !c.declared["sf_"+k] {
				delete(c.specFnDone, k)
			}
		}
		fx.loopOrd, fx.jumps, fx.pendingLabel = savedOrd, savedJumps, savedLabel
		c.locks = c.locks[:savedLocks]
		for i, r := range fx.ret {
			if i < len(savedRets) {
				r.returns = r.returns[:savedRets[i]]
			}
		}
		if r := recover(); r != nil {
			if _, ok := r.(unsupported); ok {
				panic(r)
			}
			if _, ok := r.(specErr); ok {
				panic(r)
			}
			panic(r)
		}
	}()
	t := st.clone()
	if fx.loopHeads == nil {
		fx.loopHeads = map[string]*State{}
	}
	fx.loopHeads[fmt.Sprint(lp.ord)] = t.clone()
	defer delete(fx.loopHeads, fmt.Sprint(lp.ord))
	if fx.loopEntries == nil {
		fx.loopEntries = map[string]*State{}
	}
	if _, has := fx.loopEntries[fmt.Sprint(lp.ord)]; !has {
		fx.loopEntries[fmt.Sprint(lp.ord)] = t.clone()
		defer delete(fx.loopEntries, fmt.Sprint(lp.ord))
	}
	if lp.counter != "" {
		fx.setCounter(t, lp, c.freshConst("rk", "Int"))
	}
	if lp.atHead != nil {
		lp.atHead(t)
	}
	if lp.condF != nil {
		lp.condF(t)
	}
	jc := &jumpCtx{label: lp.label, isLoop: true}
	if len(lp.body.List) > 0 {
		if ls, ok := lp.body.List[0].(*ast.LabeledStmt); ok {
			jc.gotoLabel = ls.Label.Name
		}
	}
	// jump targets of the enclosing statements are mirrored by throw-away contexts
	var mirror []*jumpCtx
	for _, j := range fx.jumps {
		m := &jumpCtx{label: j.label, isLoop: j.isLoop, isSwitch: j.isSwitch, gotoLabel: j.gotoLabel}
		if j.fwd != nil {
			m.fwd = map[string][]*State{}
			for k := range j.fwd {
				m.fwd[k] = nil
			}
			m.passed = append([]string(nil), j.passed...)
		}
		mirror = append(mirror, m)
	}
	fx.jumps = append(mirror, jc)
	if lp.preBody != nil {
		lp.preBody(t)
	}
	fx.execBlock(t, lp.body.List)
	if lp.postF != nil && !t.dead {
		lp.postF(t)
	}
}

// specBoolIfInScope evaluates a clause; ok == false when it mentions a program variable that is not live here.
func (fx *Fx) specBoolIfInScope(env *SpecEnv, e SExpr) (phi string, ok bool) {
	defer func() {
		if r := recover(); r != nil {
			if se, is := r.(specErr); is && strings.Contains(se.msg, "is not in scope here") {
				phi, ok = "", false
				return
			}
			panic(r)
		}
	}()
	return fx.specBool(env, e), true
}
