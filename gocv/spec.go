package main

// Contract language: lexer, expression parser, clause parser.
//
// Contracts are comment-only: every line starts with "//@".  A contract file
// is a sequence of blocks; a block starts with a header line
//
//	func <name>            e.g.  func distributeFlows / func (*Retry).Step / func (*flow).Start$1
//	type <name>
//	spec func name(params) sort [= expr]
//	lemma name(params)
//	ghost field <Type>.<name> <sort>
//
// followed by clause lines (requires/ensures/modifies/invariant/loop/...).
// A clause continues over following lines until the next line that starts
// with a clause keyword.

import (
	"fmt"
	"strings"
	"unicode"
)

// ---------------------------------------------------------------------------
// expression AST

type SExpr interface{}

type SIdent struct{ Name string }
type SInt struct{ V string }
type SStr struct{ V string }
type SBool struct{ V bool }
type SNil struct{}
type SUnary struct {
	Op string
	X  SExpr
}
type SBinary struct {
	Op   string
	X, Y SExpr
}
type SCall struct {
	Fun  SExpr
	Args []SExpr
}
type SSelector struct {
	X   SExpr
	Sel string
}
type SIndex struct{ X, I SExpr }
type SSliceE struct{ X, Lo, Hi SExpr }
type SVar struct{ Name, Type string }
type SQuant struct {
	Forall bool
	Vars   []SVar
	Body   SExpr
}
type SCond struct{ C, A, B SExpr }
type SLet struct {
	Name string
	Val  SExpr
	Body SExpr
}
type STypeAssert struct {
	X SExpr
	T string
}

// ---------------------------------------------------------------------------
// lexer

type tok struct {
	k string // "id", "int", "str", "op", "eof"
	s string
}

func lexSpec(src string) ([]tok, error) {
	var out []tok
	rs := []rune(src)
	i := 0
	for i < len(rs) {
		c := rs[i]
		switch {
		case unicode.IsSpace(c):
			i++
		case unicode.IsLetter(c) || c == '_' || c == '$' || c == 'Δ':
			j := i + 1
			for j < len(rs) && (unicode.IsLetter(rs[j]) || unicode.IsDigit(rs[j]) || rs[j] == '_' || rs[j] == '$') {
				j++
			}
			out = append(out, tok{"id", string(rs[i:j])})
			i = j
		case unicode.IsDigit(c):
			j := i + 1
			for j < len(rs) && (unicode.IsDigit(rs[j]) || rs[j] == '.' && j+1 < len(rs) && unicode.IsDigit(rs[j+1])) {
				j++
			}
			out = append(out, tok{"int", string(rs[i:j])})
			i = j
		case c == '"':
			j := i + 1
			for j < len(rs) && rs[j] != '"' {
				if rs[j] == '\\' {
					j++
				}
				j++
			}
			if j >= len(rs) {
				return nil, fmt.Errorf("unterminated string in %q", src)
			}
			out = append(out, tok{"str", string(rs[i+1 : j])})
			i = j + 1
		default:
			ops := []string{"<==>", "==>", "::", ":=", "==", "!=", "<=", ">=", "&&", "||", "++"}
			matched := false
			for _, op := range ops {
				if strings.HasPrefix(string(rs[i:min(len(rs), i+len([]rune(op)))]), op) {
					out = append(out, tok{"op", op})
					i += len([]rune(op))
					matched = true
					break
				}
			}
			if matched {
				continue
			}
			if strings.ContainsRune("+-*/%<>!()[]{}.,:?=&|", c) {
				out = append(out, tok{"op", string(c)})
				i++
				continue
			}
			return nil, fmt.Errorf("bad character %q in %q", c, src)
		}
	}
	out = append(out, tok{"eof", ""})
	return out, nil
}

type sparser struct {
	toks []tok
	p    int
	src  string
}

func (p *sparser) peek() tok { return p.toks[p.p] }
func (p *sparser) next() tok { t := p.toks[p.p]; p.p++; return t }
func (p *sparser) isOp(s string) bool {
	t := p.peek()
	return t.k == "op" && t.s == s
}
func (p *sparser) isId(s string) bool {
	t := p.peek()
	return t.k == "id" && t.s == s
}
func (p *sparser) expectOp(s string) {
	if !p.isOp(s) {
		panic(fmt.Errorf("spec parse: expected %q at token %d (%q) in %q", s, p.p, p.peek().s, p.src))
	}
	p.p++
}

func parseSpecExpr(src string) (e SExpr, err error) {
	toks, err := lexSpec(src)
	if err != nil {
		return nil, err
	}
	p := &sparser{toks: toks, src: src}
	defer func() {
		if r := recover(); r != nil {
			if er, ok := r.(error); ok {
				err = er
				return
			}
			panic(r)
		}
	}()
	e = p.expr()
	if p.peek().k != "eof" {
		return nil, fmt.Errorf("spec parse: trailing %q in %q", p.peek().s, src)
	}
	return e, nil
}

func (p *sparser) expr() SExpr {
	if p.isId("forall") || p.isId("exists") {
		fa := p.next().s == "forall"
		var vars []SVar
		for {
			var names []string
			for {
				t := p.next()
				if t.k != "id" {
					panic(fmt.Errorf("spec parse: quantifier variable expected in %q", p.src))
				}
				names = append(names, t.s)
				if p.isOp(",") {
					p.next()
					continue
				}
				break
			}
			ty := "int"
			if !p.isOp("::") {
				ty = p.typeText()
			}
			for _, n := range names {
				vars = append(vars, SVar{n, ty})
			}
			if p.isOp(",") { // forall i int, s string ::
				p.next()
				continue
			}
			break
		}
		p.expectOp("::")
		body := p.expr()
		return &SQuant{Forall: fa, Vars: vars, Body: body}
	}
	if p.isId("let") {
		p.next()
		name := p.next().s
		p.expectOp(":=")
		v := p.expr0()
		if !p.isId("in") {
			panic(fmt.Errorf("spec parse: 'in' expected in let in %q", p.src))
		}
		p.next()
		body := p.expr()
		return &SLet{name, v, body}
	}
	return p.expr0()
}

// typeText reads a type up to "::" or "," (very small grammar: [*][]qualified.ident)
func (p *sparser) typeText() string {
	s := ""
	for !(p.isOp("::") || p.isOp(",") || p.isOp(")") || p.peek().k == "eof" || p.isOp("=")) {
		s += p.next().s
	}
	return s
}

func (p *sparser) expr0() SExpr { // <==>
	l := p.exprImp()
	for p.isOp("<==>") {
		p.next()
		var r SExpr
		if p.isId("forall") || p.isId("exists") || p.isId("let") {
			r = p.expr()
		} else {
			r = p.exprImp()
		}
		l = &SBinary{"<==>", l, r}
	}
	return l
}

func (p *sparser) exprImp() SExpr { // ==> right assoc
	l := p.exprCond()
	if p.isOp("==>") {
		p.next()
		var r SExpr
		if p.isId("forall") || p.isId("exists") || p.isId("let") {
			r = p.expr()
		} else {
			r = p.exprImp()
		}
		return &SBinary{"==>", l, r}
	}
	return l
}

func (p *sparser) exprCond() SExpr {
	c := p.exprOr()
	if p.isOp("?") {
		p.next()
		a := p.exprCond()
		p.expectOp(":")
		b := p.exprCond()
		return &SCond{c, a, b}
	}
	return c
}

func (p *sparser) exprOr() SExpr {
	l := p.exprAnd()
	for p.isOp("||") {
		p.next()
		var r SExpr
		if p.isId("forall") || p.isId("exists") || p.isId("let") {
			r = p.expr()
		} else {
			r = p.exprAnd()
		}
		l = &SBinary{"||", l, r}
	}
	return l
}

func (p *sparser) exprAnd() SExpr {
	l := p.exprCmp()
	for p.isOp("&&") {
		p.next()
		var r SExpr
		if p.isId("forall") || p.isId("exists") {
			r = p.expr()
		} else {
			r = p.exprCmp()
		}
		l = &SBinary{"&&", l, r}
	}
	return l
}

func (p *sparser) exprCmp() SExpr {
	l := p.exprAdd()
	for {
		t := p.peek()
		if t.k == "op" && (t.s == "==" || t.s == "!=" || t.s == "<" || t.s == "<=" || t.s == ">" || t.s == ">=") {
			p.next()
			r := p.exprAdd()
			l = &SBinary{t.s, l, r}
			continue
		}
		return l
	}
}

func (p *sparser) exprAdd() SExpr {
	l := p.exprMul()
	for {
		t := p.peek()
		if t.k == "op" && (t.s == "+" || t.s == "-" || t.s == "++") {
			p.next()
			r := p.exprMul()
			l = &SBinary{t.s, l, r}
			continue
		}
		return l
	}
}

func (p *sparser) exprMul() SExpr {
	l := p.exprUnary()
	for {
		t := p.peek()
		if t.k == "op" && (t.s == "*" || t.s == "/" || t.s == "%") {
			p.next()
			r := p.exprUnary()
			l = &SBinary{t.s, l, r}
			continue
		}
		return l
	}
}

func (p *sparser) exprUnary() SExpr {
	if p.isOp("!") {
		p.next()
		return &SUnary{"!", p.exprUnary()}
	}
	if p.isOp("-") {
		p.next()
		return &SUnary{"-", p.exprUnary()}
	}
	if p.isOp("*") {
		p.next()
		return &SUnary{"*", p.exprUnary()}
	}
	return p.exprPostfix()
}

func (p *sparser) exprPostfix() SExpr {
	e := p.primary()
	for {
		switch {
		case p.isOp("."):
			p.next()
			if p.isOp("(") { // type assertion e.(T)
				p.next()
				depth := 0
				s := ""
				for !(p.isOp(")") && depth == 0) {
					if p.isOp("(") {
						depth++
					}
					if p.isOp(")") {
						depth--
					}
					s += p.next().s
				}
				p.expectOp(")")
				e = &STypeAssert{e, s}
				continue
			}
			t := p.next()
			if t.k != "id" {
				panic(fmt.Errorf("spec parse: selector expected in %q", p.src))
			}
			e = &SSelector{e, t.s}
		case p.isOp("["):
			p.next()
			var lo SExpr
			if !p.isOp(":") {
				lo = p.expr()
			}
			if p.isOp(":") {
				p.next()
				var hi SExpr
				if !p.isOp("]") {
					hi = p.expr()
				}
				p.expectOp("]")
				e = &SSliceE{e, lo, hi}
			} else {
				p.expectOp("]")
				e = &SIndex{e, lo}
			}
		case p.isOp("("):
			p.next()
			var args []SExpr
			for !p.isOp(")") {
				args = append(args, p.expr())
				if p.isOp(",") {
					p.next()
				}
			}
			p.expectOp(")")
			e = &SCall{e, args}
		default:
			return e
		}
	}
}

func (p *sparser) primary() SExpr {
	t := p.next()
	switch t.k {
	case "int":
		return &SInt{t.s}
	case "str":
		return &SStr{t.s}
	case "id":
		switch t.s {
		case "true":
			return &SBool{true}
		case "false":
			return &SBool{false}
		case "nil":
			return &SNil{}
		}
		return &SIdent{t.s}
	case "op":
		if t.s == "(" {
			e := p.expr()
			p.expectOp(")")
			return e
		}
	}
	panic(fmt.Errorf("spec parse: unexpected %q in %q", t.s, p.src))
}

// ---------------------------------------------------------------------------
// contract blocks

type Clause struct {
	Kind string // requires, ensures, modifies, invariant, ...
	Text string
	Expr SExpr
	Line int
	File string
	Name string // optional label:  ensures [name] expr
}

type LoopSpec struct {
	Ordinal    int
	Hint       string
	Invariants []*Clause
	Iter       []*Clause // "iter ensures": per-iteration postconditions (old = loop head)
	Step       []*Clause // "step ensures": like iter, and also checked where the function returns from inside the loop body
	SelectOnly bool      // "blocks only in select": no receive statement outside the comm clauses of the loop's selects
	Offers     []string  // "offers <-expr": every select of the loop has a comm clause receiving from exactly this channel expression
	Cancels    string    // "cancels ctx": the loop is a goroutine's message loop that must stop when ctx is cancelled
	Exit       []*Clause // "exit ensures": holds on every way out of the loop other than return (exhaustion, break)
	Decreases  *Clause
}

type FuncSpec struct {
	Key        string // "pkgpath|(*T).name$k"
	PkgPath    string
	Name       string
	Requires   []*Clause
	Ensures    []*Clause
	Modifies   []string // heap keys or "*" ; nil = default
	ModSet     bool
	Loops      map[int]*LoopSpec
	Flags      map[string]string // pure, nonblocking, trusted, assumed, checknil ...
	Uses       []string          // lemma names
	UsesAt     []*LemmaUse
	ClosureInv []*Clause // function literals: invariant over captured variables, established where the literal is created,
	// assumed at every call of it and re-established at every return
	Props        []string // property ids this function serves
	File         string
	Line         int
	Assumed      bool   // contract is assumed, body not verified (deps or explicitly "assumed")
	Params       []SVar // for deps specs without Go declaration (unused when bound to Go func)
	GhostLets    []*Clause
	EmitsC       []*Clause
	RecvInv      []*Clause // assumed invariants of messages of a type (Name = type name, variable msg)
	Asserts      []*AssertAt // "assert before "<stmt text prefix>" [name] expr": checked (and then assumed) each time the statement is reached
	Defensive    []string  // "defensive <cond>": the branch of `if <cond>` is declared dead code and must be PROVED unreachable
	modsResolved bool
	ModObjs      map[string][]string // heap key -> parameter/receiver names whose object alone is modified (absent: any object)
}

// AssertAt: an assertion anchored at a statement of the function body, named by a prefix of its source text.
type AssertAt struct {
	Anchor string
	C      *Clause
}

type SpecFunc struct {
	Name    string
	Params  []SVar
	Result  string
	Body    SExpr // may be nil (uninterpreted)
	Rec     bool
	PkgPath string
	File    string
	Line    int
}

// LemmaUse: a lemma instantiated at given arguments (use lemma NAME with ...).
type LemmaUse struct {
	Name string
	Args map[string]SExpr
	Line int
}

type Lemma struct {
	Name     string
	Params   []SVar
	Requires []*Clause
	Ensures  []*Clause
	Induct   string // variable for induction ("" = none)
	UsesAt   []*LemmaUse
	Patterns []SExpr // terms of the instantiation pattern used when the lemma is assumed (one multi-pattern)
	Uses     []string
	PkgPath  string
	File     string
	Line     int
	Props    []string
	Axiom    bool
}

type GhostField struct {
	Type    string // qualified type name as written
	Name    string
	Sort    string
	PkgPath string
}

type TypeSpec struct {
	Name       string
	PkgPath    string
	Invariants []*Clause
	Fields     map[string]string // field -> protection class text
	File       string
	Line       int
}

type SpecFile struct {
	Path    string
	PkgPath string
	Funcs   []*FuncSpec
	SFuncs  []*SpecFunc
	Lemmas  []*Lemma
	Ghosts  []*GhostField
	Types   []*TypeSpec
	Axioms  []*Clause
	Consts  []*Clause
}

var clauseKeywords = map[string]bool{
	"requires": true, "assumes": true, "ensures": true, "modifies": true, "invariant": true, "loop": true,
	"iter": true, "step": true, "exit": true, "cancels": true, "blocks": true, "closureinv": true, "decreases": true, "emits": true, "recvinv": true, "flag": true, "use": true, "prop": true, "induction": true, "pattern": true, "defensive": true, "assert": true, "offers": true,
	"field": true, "assumed": true, "pure": true, "end": true,
}
var headerKeywords = map[string]bool{"func": true, "type": true, "spec": true, "lemma": true, "ghost": true, "axiom": true, "package": true}

// parseSpecText parses the "//@"-stripped lines of one file.
func parseSpecText(path, pkgPath string, lines []string, lineNos []int) (*SpecFile, error) {
	sf := &SpecFile{Path: path, PkgPath: pkgPath}
	// join continuation lines
	type item struct {
		text string
		line int
	}
	var items []item
	for i, l := range lines {
		t := strings.TrimSpace(l)
		if t == "" || strings.HasPrefix(t, "#") {
			continue
		}
		first := t
		if k := strings.IndexAny(t, " \t("); k >= 0 {
			first = t[:k]
		}
		if clauseKeywords[first] || headerKeywords[first] {
			items = append(items, item{t, lineNos[i]})
		} else {
			if len(items) == 0 {
				return nil, fmt.Errorf("%s:%d: text before any header: %q", path, lineNos[i], t)
			}
			items[len(items)-1].text += " " + t
		}
	}
	var curF *FuncSpec
	var curL *Lemma
	var curT *TypeSpec
	var curLoop *LoopSpec
	mkClause := func(kind, text string, line int) (*Clause, error) {
		c := &Clause{Kind: kind, Text: text, Line: line, File: path}
		t := strings.TrimSpace(text)
		if strings.HasPrefix(t, "[") {
			if k := strings.Index(t, "]"); k > 0 {
				c.Name = t[1:k]
				t = strings.TrimSpace(t[k+1:])
			}
		}
		e, err := parseSpecExpr(t)
		if err != nil {
			return nil, fmt.Errorf("%s:%d: %v", path, line, err)
		}
		c.Expr = e
		c.Text = t
		return c, nil
	}
	for _, it := range items {
		t := it.text
		kw := t
		rest := ""
		if k := strings.IndexAny(t, " \t"); k >= 0 {
			kw = t[:k]
			rest = strings.TrimSpace(t[k:])
		}
		switch kw {
		case "package":
			sf.PkgPath = rest
			pkgPath = rest
		case "func":
			curL, curT, curLoop = nil, nil, nil
			curF = &FuncSpec{Name: rest, PkgPath: pkgPath, Loops: map[int]*LoopSpec{}, Flags: map[string]string{}, File: path, Line: it.line}
			// optional explicit package:  func path/to/pkg.(*T).M
			curF.Key = pkgPath + "|" + rest
			sf.Funcs = append(sf.Funcs, curF)
		case "type":
			curF, curL, curLoop = nil, nil, nil
			curT = &TypeSpec{Name: rest, PkgPath: pkgPath, Fields: map[string]string{}, File: path, Line: it.line}
			sf.Types = append(sf.Types, curT)
		case "ghost":
			// ghost field T.name sort
			fs := strings.Fields(rest)
			if len(fs) < 3 || fs[0] != "field" {
				return nil, fmt.Errorf("%s:%d: ghost field T.name sort", path, it.line)
			}
			k := strings.LastIndex(fs[1], ".")
			sf.Ghosts = append(sf.Ghosts, &GhostField{Type: fs[1][:k], Name: fs[1][k+1:], Sort: strings.Join(fs[2:], " "), PkgPath: pkgPath})
		case "axiom":
			c, err := mkClause("axiom", rest, it.line)
			if err != nil {
				return nil, err
			}
			sf.Axioms = append(sf.Axioms, c)
		case "spec":
			// spec func name(a int, b T) sort [= expr]
			curF, curL, curT, curLoop = nil, nil, nil, nil
			r := strings.TrimSpace(strings.TrimPrefix(rest, "func"))
			op := strings.Index(r, "(")
			cl := matchParen(r, op)
			if op < 0 || cl < 0 {
				return nil, fmt.Errorf("%s:%d: bad spec func header", path, it.line)
			}
			s := &SpecFunc{Name: strings.TrimSpace(r[:op]), PkgPath: pkgPath, File: path, Line: it.line}
			s.Params = parseParams(r[op+1 : cl])
			tail := strings.TrimSpace(r[cl+1:])
			if k := strings.Index(tail, "="); k >= 0 && !strings.HasPrefix(tail[k:], "==") {
				s.Result = strings.TrimSpace(tail[:k])
				body := strings.TrimSpace(tail[k+1:])
				e, err := parseSpecExpr(body)
				if err != nil {
					return nil, fmt.Errorf("%s:%d: %v", path, it.line, err)
				}
				s.Body = e
			} else {
				s.Result = tail
			}
			sf.SFuncs = append(sf.SFuncs, s)
		case "lemma":
			curF, curT, curLoop = nil, nil, nil
			op := strings.Index(rest, "(")
			cl := matchParen(rest, op)
			if op < 0 || cl < 0 {
				return nil, fmt.Errorf("%s:%d: bad lemma header", path, it.line)
			}
			curL = &Lemma{Name: strings.TrimSpace(rest[:op]), PkgPath: pkgPath, File: path, Line: it.line}
			curL.Params = parseParams(rest[op+1 : cl])
			sf.Lemmas = append(sf.Lemmas, curL)
		case "closureinv":
			if curF == nil {
				return nil, fmt.Errorf("%s:%d: closureinv outside func", path, it.line)
			}
			c, err := mkClause(kw, rest, it.line)
			if err != nil {
				return nil, err
			}
			curF.ClosureInv = append(curF.ClosureInv, c)
		case "requires", "ensures", "assumes":
			// "assumes [name] expr": a precondition that no call site can check (an invariant of objects reached through
			// registries or interfaces); it is assumed at the function's entry, never at a call site, and is listed with the
			// assumed contracts in the evidence
			c, err := mkClause(kw, rest, it.line)
			if err != nil {
				return nil, err
			}
			if kw == "assumes" && curF == nil {
				return nil, fmt.Errorf("%s:%d: assumes outside func", path, it.line)
			}
			switch {
			case curF != nil:
				if kw == "requires" || kw == "assumes" {
					curF.Requires = append(curF.Requires, c)
				} else {
					curF.Ensures = append(curF.Ensures, c)
				}
			case curL != nil:
				if kw == "requires" {
					curL.Requires = append(curL.Requires, c)
				} else {
					curL.Ensures = append(curL.Ensures, c)
				}
			default:
				return nil, fmt.Errorf("%s:%d: %s outside func/lemma", path, it.line, kw)
			}
		case "recvinv":
			// recvinv <Type>: <expr over msg>   -- assumed (unchecked) invariant of every received message of that type
			if curF == nil {
				return nil, fmt.Errorf("%s:%d: recvinv outside func", path, it.line)
			}
			k := strings.Index(rest, ":")
			if k < 0 {
				return nil, fmt.Errorf("%s:%d: recvinv <Type>: <expr>", path, it.line)
			}
			c, err := mkClause(kw, strings.TrimSpace(rest[k+1:]), it.line)
			if err != nil {
				return nil, err
			}
			c.Name = strings.TrimSpace(rest[:k])
			curF.RecvInv = append(curF.RecvInv, c)
		case "emits":
			if curF == nil {
				return nil, fmt.Errorf("%s:%d: emits outside func", path, it.line)
			}
			c, err := mkClause(kw, rest, it.line)
			if err != nil {
				return nil, err
			}
			curF.EmitsC = append(curF.EmitsC, c)
		case "modifies":
			if curF == nil {
				return nil, fmt.Errorf("%s:%d: modifies outside func", path, it.line)
			}
			curF.ModSet = true
			for _, m := range strings.Split(rest, ",") {
				m = strings.TrimSpace(m)
				if m != "" && m != "nothing" {
					curF.Modifies = append(curF.Modifies, m)
				}
			}
		case "loop":
			if curF == nil {
				return nil, fmt.Errorf("%s:%d: loop outside func", path, it.line)
			}
			fs := strings.Fields(rest)
			n := 0
			fmt.Sscanf(fs[0], "%d", &n)
			if n == 0 {
				return nil, fmt.Errorf("%s:%d: loop needs ordinal >= 1", path, it.line)
			}
			curLoop = &LoopSpec{Ordinal: n, Hint: strings.Join(fs[1:], " ")}
			curF.Loops[n] = curLoop
		case "invariant":
			c, err := mkClause(kw, rest, it.line)
			if err != nil {
				return nil, err
			}
			switch {
			case curLoop != nil:
				curLoop.Invariants = append(curLoop.Invariants, c)
			case curT != nil:
				curT.Invariants = append(curT.Invariants, c)
			default:
				return nil, fmt.Errorf("%s:%d: invariant outside loop/type", path, it.line)
			}
		case "iter":
			if curLoop == nil {
				return nil, fmt.Errorf("%s:%d: iter outside loop", path, it.line)
			}
			r := strings.TrimSpace(strings.TrimPrefix(rest, "ensures"))
			c, err := mkClause("iter", r, it.line)
			if err != nil {
				return nil, err
			}
			curLoop.Iter = append(curLoop.Iter, c)
		case "step":
			// step ensures [name] expr: a per-turn postcondition (old = loop head) that holds at every back edge and also
			// at every return from inside the loop body - a turn that leaves the function early is still a turn
			if curLoop == nil {
				return nil, fmt.Errorf("%s:%d: step outside loop", path, it.line)
			}
			r := strings.TrimSpace(strings.TrimPrefix(rest, "ensures"))
			c, err := mkClause("step", r, it.line)
			if err != nil {
				return nil, err
			}
			curLoop.Step = append(curLoop.Step, c)
		case "assert":
			// assert before "<statement text prefix>" [name] <expr>
			if curF == nil {
				return nil, fmt.Errorf("%s:%d: assert outside func", path, it.line)
			}
			r := strings.TrimSpace(strings.TrimPrefix(rest, "before"))
			if !strings.HasPrefix(rest, "before") || !strings.HasPrefix(r, "\"") {
				return nil, fmt.Errorf("%s:%d: assert before \"<statement text>\" [name] <expr>", path, it.line)
			}
			q := strings.Index(r[1:], "\"")
			if q < 0 {
				return nil, fmt.Errorf("%s:%d: assert before: unterminated anchor", path, it.line)
			}
			anchor := strings.Join(strings.Fields(r[1:1+q]), " ")
			c, err := mkClause(kw, r[q+2:], it.line)
			if err != nil {
				return nil, err
			}
			curF.Asserts = append(curF.Asserts, &AssertAt{Anchor: anchor, C: c})
		case "defensive":
			// defensive <condition text>: the then-branch of the `if` with exactly this condition is defensive dead code;
			// instead of demanding that its exit is reachable (vacuity) the branch is proved unreachable and skipped
			if curF == nil {
				return nil, fmt.Errorf("%s:%d: defensive outside func", path, it.line)
			}
			curF.Defensive = append(curF.Defensive, strings.Join(strings.Fields(rest), " "))
		case "blocks":
			if curLoop == nil {
				return nil, fmt.Errorf("%s:%d: blocks outside loop", path, it.line)
			}
			curLoop.SelectOnly = true
		case "offers":
			// offers <-<channel expression>: every select the loop blocks in keeps taking from that channel
			if curLoop == nil {
				return nil, fmt.Errorf("%s:%d: offers outside loop", path, it.line)
			}
			curLoop.Offers = append(curLoop.Offers, strings.Join(strings.Fields(strings.TrimPrefix(strings.TrimSpace(rest), "<-")), " "))
		case "cancels":
			if curLoop == nil {
				return nil, fmt.Errorf("%s:%d: cancels outside loop", path, it.line)
			}
			curLoop.Cancels = strings.TrimSpace(rest)
		case "exit":
			if curLoop == nil {
				return nil, fmt.Errorf("%s:%d: exit outside loop", path, it.line)
			}
			r := strings.TrimSpace(strings.TrimPrefix(rest, "ensures"))
			c, err := mkClause("exit", r, it.line)
			if err != nil {
				return nil, err
			}
			curLoop.Exit = append(curLoop.Exit, c)
		case "decreases":
			c, err := mkClause(kw, rest, it.line)
			if err != nil {
				return nil, err
			}
			if curLoop != nil {
				curLoop.Decreases = c
			}
		case "flag", "pure", "assumed":
			if curF == nil {
				return nil, fmt.Errorf("%s:%d: %s outside func", path, it.line, kw)
			}
			if kw != "flag" {
				curF.Flags[kw] = "true"
				if kw == "assumed" {
					curF.Assumed = true
				}
				break
			}
			fs := strings.Fields(rest)
			v := "true"
			if len(fs) > 1 {
				v = strings.Join(fs[1:], " ")
			}
			curF.Flags[fs[0]] = v
			if fs[0] == "assumed" {
				curF.Assumed = true
			}
		case "use":
			if k := strings.Index(rest, " with "); k >= 0 && (curF != nil || curL != nil) {
				// use lemma NAME with p = expr; q = expr : the lemma instantiated at these arguments (the other
				// parameters stay universally quantified), assumed at every exit of the function
				lu := &LemmaUse{Name: strings.TrimSpace(strings.TrimPrefix(strings.TrimSpace(rest[:k]), "lemma")), Args: map[string]SExpr{}, Line: it.line}
				for _, part := range splitTopLevel(rest[k+6:], ';') {
					eq := strings.Index(part, "=")
					if eq < 0 {
						return nil, fmt.Errorf("%s:%d: use ... with: expected name = expr", path, it.line)
					}
					e, err := parseSpecExpr(strings.TrimSpace(part[eq+1:]))
					if err != nil {
						return nil, fmt.Errorf("%s:%d: %v", path, it.line, err)
					}
					lu.Args[strings.TrimSpace(part[:eq])] = e
				}
				if curF != nil {
					curF.UsesAt = append(curF.UsesAt, lu)
				} else {
					curL.UsesAt = append(curL.UsesAt, lu)
				}
				break
			}
			names := strings.Fields(strings.ReplaceAll(strings.TrimPrefix(rest, "lemma"), ",", " "))
			switch {
			case curF != nil:
				curF.Uses = append(curF.Uses, names...)
			case curL != nil:
				curL.Uses = append(curL.Uses, names...)
			}
		case "prop":
			ps := strings.Fields(strings.ReplaceAll(rest, ",", " "))
			switch {
			case curF != nil:
				curF.Props = append(curF.Props, ps...)
			case curL != nil:
				curL.Props = append(curL.Props, ps...)
			}
		case "induction":
			if curL == nil {
				return nil, fmt.Errorf("%s:%d: induction outside lemma", path, it.line)
			}
			curL.Induct = strings.TrimSpace(strings.TrimPrefix(rest, "on"))
		case "pattern":
			if curL == nil {
				return nil, fmt.Errorf("%s:%d: pattern outside lemma", path, it.line)
			}
			for _, part := range splitTopLevel(rest, ';') {
				e, err := parseSpecExpr(strings.TrimSpace(part))
				if err != nil {
					return nil, fmt.Errorf("%s:%d: %v", path, it.line, err)
				}
				curL.Patterns = append(curL.Patterns, e)
			}
		case "field":
			if curT == nil {
				return nil, fmt.Errorf("%s:%d: field outside type", path, it.line)
			}
			fs := strings.Fields(rest)
			curT.Fields[fs[0]] = strings.Join(fs[1:], " ")
		case "end":
			curF, curL, curT, curLoop = nil, nil, nil, nil
		default:
			return nil, fmt.Errorf("%s:%d: unknown keyword %q", path, it.line, kw)
		}
	}
	return sf, nil
}

func matchParen(s string, open int) int {
	if open < 0 {
		return -1
	}
	d := 0
	for i := open; i < len(s); i++ {
		switch s[i] {
		case '(':
			d++
		case ')':
			d--
			if d == 0 {
				return i
			}
		}
	}
	return -1
}

func parseParams(s string) []SVar {
	var out []SVar
	s = strings.TrimSpace(s)
	if s == "" {
		return nil
	}
	var pending []string
	for _, part := range strings.Split(s, ",") {
		fs := strings.Fields(part)
		if len(fs) == 1 {
			pending = append(pending, fs[0])
			continue
		}
		ty := strings.Join(fs[1:], " ")
		for _, n := range pending {
			out = append(out, SVar{n, ty})
		}
		pending = nil
		out = append(out, SVar{fs[0], ty})
	}
	for _, n := range pending {
		out = append(out, SVar{n, "int"})
	}
	return out
}

// splitConj distributes a clause over its top-level conjunctions (through implications and
// universal quantifiers), so that each conjunct becomes its own obligation.
func splitConj(e SExpr) []SExpr {
	switch x := e.(type) {
	case *SBinary:
		switch x.Op {
		case "&&":
			return append(splitConj(x.X), splitConj(x.Y)...)
		case "==>":
			var out []SExpr
			for _, c := range splitConj(x.Y) {
				out = append(out, &SBinary{"==>", x.X, c})
			}
			return out
		}
	case *SQuant:
		if x.Forall {
			var out []SExpr
			for _, c := range splitConj(x.Body) {
				out = append(out, &SQuant{Forall: true, Vars: x.Vars, Body: c})
			}
			return out
		}
	case *SLet:
		var out []SExpr
		for _, c := range splitConj(x.Body) {
			out = append(out, &SLet{x.Name, x.Val, c})
		}
		return out
	}
	return []SExpr{e}
}

// splitTopLevel splits at sep outside parentheses and brackets.
func splitTopLevel(s string, sep rune) []string {
	var out []string
	depth, start := 0, 0
	for i, r := range s {
		switch r {
		case '(', '[':
			depth++
		case ')', ']':
			depth--
		default:
			if r == sep && depth == 0 {
				out = append(out, s[start:i])
				start = i + 1
			}
		}
	}
	return append(out, s[start:])
}
