package main

// Hard-wired models of sync, sync/atomic, context, time and a few fmt/errors functions.

import (
	"fmt"
	"go/ast"
	"go/token"
	"go/types"
	"strings"
)

func (fx *Fx) lkHeap(st *State) string { return st.heap("LK", "(Array Int Int)") }

func (fx *Fx) setLK(st *State, mu, mode string) {
	st.setHeap("LK", "(Array Int Int)", fmt.Sprintf("(store %s %s %s)", fx.lkHeap(st), mu, mode))
}

func (fx *Fx) touchLock(st *State, mu string) {
	for _, m := range fx.c.locks {
		if m == mu {
			return
		}
	}
	fx.c.locks = append(fx.c.locks, mu)
	// an activation starts holding no lock unless its contract says otherwise (requires held(mu) == ...)
	if fx.spec != nil && fx.spec.Flags["entrylocks"] == "" {
		st.assume(fmt.Sprintf("(= (select %s %s) 0)", fx.entry.heap("LK", "(Array Int Int)"), mu))
	}
}

func (fx *Fx) hardwired(st *State, fn *types.Func, call *ast.CallExpr, recv *Val, recvLoc *Loc, preArgs []Val) ([]Val, bool) {
	if fn.Pkg() == nil {
		// error.Error() etc.
		if fn.Name() == "Error" && recv != nil {
			v := fx.c.freshConst("errstr", "Str")
			return []Val{{T: v, S: "Str", GT: types.Typ[types.String]}}, true
		}
		return nil, false
	}
	c := fx.c
	pos := fx.w.pos(call.Pos())
	argv := func(i int) Val {
		if preArgs != nil {
			return preArgs[i]
		}
		return fx.eval(st, call.Args[i])
	}
	recvName := ""
	if r := fn.Type().(*types.Signature).Recv(); r != nil {
		t := types.Unalias(r.Type())
		if p, ok := t.(*types.Pointer); ok {
			t = types.Unalias(p.Elem())
		}
		if n, ok := t.(*types.Named); ok {
			recvName = n.Obj().Name()
		}
	}
	boolT := types.Typ[types.Bool]
	switch fn.Pkg().Path() {
	case "sort":
		// sort.Slice(x, less) / sort.SliceStable: the elements of x are permuted in place (a bijection of the positions
		// of x; nothing outside x changes).  The comparison function is not run by the model: its verdicts decide only
		// which permutation, which no contract here depends on.
		if (fn.Name() == "Slice" || fn.Name() == "SliceStable") && recv == nil && len(call.Args) == 2 {
			x := argv(0)
			sl, ok := types.Unalias(fx.info.TypeOf(call.Args[0])).Underlying().(*types.Slice)
			if !ok || x.S != "Slice" {
				return nil, false
			}
			argv(1)
			s := c.define("srt", "Slice", x.T)
			es := c.sortOf(sl.Elem())
			key, hs := "E:"+typeKey(sl.Elem()), "(Array Int (Array Int "+es+"))"
			oldH := st.heap(key, hs)
			oldA := c.define("sorted_old", "(Array Int "+es+")", fmt.Sprintf("(select %s (s_base %s))", oldH, s))
			newA := c.freshConst("sorted_new", "(Array Int "+es+")")
			perm, inv := c.fresh("sortperm"), c.fresh("sortinv")
			c.declareFun(perm, []string{"Int"}, "Int")
			c.declareFun(inv, []string{"Int"}, "Int")
			lo, hi := fmt.Sprintf("(s_off %s)", s), fmt.Sprintf("(+ (s_off %s) (s_len %s))", s, s)
			st.assume(fmt.Sprintf("(forall ((p!s Int)) (! (=> (and (<= %s p!s) (< p!s %s)) (and (<= %s (%s p!s)) (< (%s p!s) %s) (= (%s (%s p!s)) p!s) (= (select %s p!s) (select %s (%s p!s))))) :pattern ((select %s p!s)) :pattern ((%s p!s))))",
				lo, hi, lo, perm, perm, hi, inv, perm, newA, oldA, perm, newA, perm))
			st.assume(fmt.Sprintf("(forall ((q!s Int)) (! (=> (and (<= %s q!s) (< q!s %s)) (and (<= %s (%s q!s)) (< (%s q!s) %s) (= (%s (%s q!s)) q!s))) :pattern ((select %s q!s)) :pattern ((%s q!s))))",
				lo, hi, lo, inv, inv, hi, perm, inv, oldA, inv))
			st.assume(fmt.Sprintf("(forall ((p!s Int)) (! (=> (not (and (<= %s p!s) (< p!s %s))) (= (select %s p!s) (select %s p!s))) :pattern ((select %s p!s))))", lo, hi, newA, oldA, newA))
			st.setHeap(key, hs, fmt.Sprintf("(store %s (s_base %s) %s)", oldH, s, newA))
			return nil, true
		}
		return nil, false
	case "sync":
		if recv == nil {
			return nil, false
		}
		mu := c.define("mu", "Int", recv.T)
		if recvName == "Mutex" || recvName == "RWMutex" {
			fx.touchLock(st, mu)
		}
		held := fmt.Sprintf("(select %s %s)", fx.lkHeap(st), mu)
		what := fx.exprText(call.Fun)
		switch recvName + "." + fn.Name() {
		case "Mutex.Lock", "RWMutex.Lock":
			c.oblige(st, "lock-order", "Lock("+what+")", fmt.Sprintf("(= %s 0)", held), "lock not already held by this activation: "+what, pos)
			fx.assumeLock(st, fmt.Sprintf("(= %s 0)", held))
			fx.setLK(st, mu, "2")
			// other goroutines may have changed guarded state: nothing is known about it (heaps are not refined by locks)
			return nil, true
		case "RWMutex.RLock":
			c.oblige(st, "lock-order", "RLock("+what+")", fmt.Sprintf("(= %s 0)", held), "lock not already held by this activation: "+what, pos)
			fx.assumeLock(st, fmt.Sprintf("(= %s 0)", held))
			fx.setLK(st, mu, "1")
			return nil, true
		case "Mutex.Unlock", "RWMutex.Unlock":
			c.oblige(st, "lock-released", "Unlock("+what+")", fmt.Sprintf("(= %s 2)", held), "unlock of a write lock held by this activation: "+what, pos)
			fx.assumeLock(st, fmt.Sprintf("(= %s 2)", held))
			fx.setLK(st, mu, "0")
			return nil, true
		case "RWMutex.RUnlock":
			c.oblige(st, "lock-released", "RUnlock("+what+")", fmt.Sprintf("(= %s 1)", held), "unlock of a read lock held by this activation: "+what, pos)
			fx.assumeLock(st, fmt.Sprintf("(= %s 1)", held))
			fx.setLK(st, mu, "0")
			return nil, true
		case "WaitGroup.Add":
			n := argv(0)
			st.logEvent(evTerm("WgAdd", mu, "", "", n.T))
			return nil, true
		case "WaitGroup.Done":
			st.logEvent(evTerm("WgDone", mu, "", "", ""))
			return nil, true
		case "WaitGroup.Wait":
			st.logEvent(evTerm("WgWait", mu, "", "", ""))
			return nil, true
		case "Once.Do":
			done := fmt.Sprintf("(select %s %s)", st.heap("ONCE", "(Array Int Bool)"), mu)
			lit, isLit := unparen(call.Args[0]).(*ast.FuncLit)
			fx.branch(st, "(not "+done+")", func(t *State) {
				t.setHeap("ONCE", "(Array Int Bool)", fmt.Sprintf("(store %s %s true)", t.heap("ONCE", "(Array Int Bool)"), mu))
				if isLit {
					fx.onceStack = append(fx.onceStack, mu)
					fx.inlineLit(t, lit, nil)
					fx.onceStack = fx.onceStack[:len(fx.onceStack)-1]
				} else {
					f := fx.eval(t, call.Args[0])
					c.declareFun("fn_code", []string{"Int"}, "Int")
					t.logEvent(evTerm("FnCall", "(fn_code "+f.T+")", "", "", ""))
					ms := newModSet()
					ms.emits, ms.allocs = true, true
					fx.havocMods(t, ms)
				}
			}, func(*State) {})
			return nil, true
		}
		return nil, false
	case "sync/atomic":
		sig := fn.Type().(*types.Signature)
		var loc *Loc
		var rest []Val
		if sig.Recv() != nil {
			loc = recvLoc
			if loc == nil && recv != nil {
				loc = c.interior[recv.T]
			}
			for i := range call.Args {
				rest = append(rest, argv(i))
			}
		} else {
			if u, ok := unparen(call.Args[0]).(*ast.UnaryExpr); ok && u.Op == token.AND {
				loc = fx.lvalue(st, u.X)
			} else {
				p := fx.eval(st, call.Args[0])
				if l, ok := c.interior[p.T]; ok {
					loc = l
				} else if pt, ok := types.Unalias(p.GT).Underlying().(*types.Pointer); ok {
					loc = &Loc{kind: locHeap, key: "P:" + typeKey(pt.Elem()), srt: c.sortOf(pt.Elem()), ref: p.T, T: pt.Elem()}
				}
			}
			for i := 1; i < len(call.Args); i++ {
				rest = append(rest, argv(i))
			}
		}
		if loc == nil {
			fx.unsup(call, "atomic operation on unknown location")
		}
		name := fn.Name()
		fx.inAtomic = true
		defer func() { fx.inAtomic = false }()
		if strings.HasPrefix(name, "Store") && fx.w.atomicClass(loc.key) == "atomic rmw" {
			c.oblige(st, "atomic", "store("+strings.TrimPrefix(loc.key, "F:")+")", "false", "field declared `atomic rmw` is changed only by Add/CompareAndSwap/Swap (a Load followed by a Store is not one atomic step)", pos)
		}
		cur := fx.readLoc(st, loc)
		resT := types.Type(nil)
		if sig.Results().Len() > 0 {
			resT = sig.Results().At(0).Type()
		}
		switch {
		case strings.HasPrefix(name, "Load"):
			return []Val{{T: cur.T, S: cur.S, GT: resT}}, true
		case strings.HasPrefix(name, "Store"):
			fx.writeLoc(st, loc, Val{T: rest[0].T, S: cur.S, GT: cur.GT})
			return nil, true
		case strings.HasPrefix(name, "Add"):
			nv := c.define("atom", "Int", fmt.Sprintf("(+ %s %s)", cur.T, rest[0].T))
			fx.writeLoc(st, loc, Val{T: nv, S: "Int", GT: cur.GT})
			return []Val{{T: nv, S: "Int", GT: resT}}, true
		case strings.HasPrefix(name, "Swap"):
			old := c.define("atom", cur.S, cur.T)
			fx.writeLoc(st, loc, Val{T: rest[0].T, S: cur.S, GT: cur.GT})
			return []Val{{T: old, S: cur.S, GT: resT}}, true
		case strings.HasPrefix(name, "CompareAndSwap"):
			ok := c.define("cas", "Bool", fmt.Sprintf("(= %s %s)", cur.T, rest[0].T))
			fx.writeLoc(st, loc, Val{T: fmt.Sprintf("(ite %s %s %s)", ok, rest[1].T, cur.T), S: cur.S, GT: cur.GT})
			return []Val{{T: ok, S: "Bool", GT: boolT}}, true
		}
		return nil, false
	case "context":
		if recv != nil && recvName == "Context" || recv != nil && fn.Name() == "Done" {
			switch fn.Name() {
			case "Done":
				c.declareFun("ctx_done", []string{"Iface"}, "Int")
				t := c.define("done", "Int", fmt.Sprintf("(ctx_done %s)", recv.T))
				st.assume(fmt.Sprintf("(and (>= %s 0) (<= %s %s))", t, t, fx.entryAlloc()))
				st.assume(c.refTypeFact(t, fn.Type().(*types.Signature).Results().At(0).Type()))
				return []Val{{T: t, S: "Int", GT: fn.Type().(*types.Signature).Results().At(0).Type()}}, true
			case "Err":
				// Err is non-nil exactly when Done is closed (no interleaving in the model: the state at this instant)
				v := fx.freshOfType(st, "ctxerr", fn.Type().(*types.Signature).Results().At(0).Type())
				c.declareFun("ctx_done", []string{"Iface"}, "Int")
				st.assume(fmt.Sprintf("(= (not (= (i_tag %s) 0)) (select %s (ctx_done %s)))", v.T, st.heap("CC", "(Array Int Bool)"), recv.T))
				return []Val{v}, true
			}
		}
		return nil, false
	case "time":
		intV := func(t string, gt types.Type) []Val { return []Val{{T: t, S: "Int", GT: gt}} }
		sig := fn.Type().(*types.Signature)
		var rt types.Type
		if sig.Results().Len() > 0 {
			rt = sig.Results().At(0).Type()
		}
		switch recvName + "." + fn.Name() {
		case "Time.Add":
			return intV(fmt.Sprintf("(+ %s %s)", recv.T, argv(0).T), rt), true
		case "Time.Sub":
			return intV(fmt.Sprintf("(- %s %s)", recv.T, argv(0).T), rt), true
		case "Time.After":
			return []Val{{T: fmt.Sprintf("(> %s %s)", recv.T, argv(0).T), S: "Bool", GT: boolT}}, true
		case "Time.Before":
			return []Val{{T: fmt.Sprintf("(< %s %s)", recv.T, argv(0).T), S: "Bool", GT: boolT}}, true
		case "Time.Equal":
			return []Val{{T: fmt.Sprintf("(= %s %s)", recv.T, argv(0).T), S: "Bool", GT: boolT}}, true
		case "Duration.Nanoseconds":
			return intV(recv.T, rt), true
		case "Time.UnixNano":
			// "The result is undefined if the Unix time in nanoseconds cannot be represented by an int64" (a date before
			// 1678 or after 2262): equal to the instant inside that range, some int64 (a function of the instant) outside
			c.declareFun("time_unixnano", []string{"Int"}, "Int")
			r := fmt.Sprintf("(time_unixnano %s)", recv.T)
			st.assume(fmt.Sprintf("(and (<= (- 9223372036854775808) %s) (<= %s 9223372036854775807) (=> (and (<= (- 9223372036854775808) %s) (<= %s 9223372036854775807)) (= %s %s)))", r, r, recv.T, recv.T, r, recv.T))
			return intV(r, rt), true
		case "Time.IsZero":
			c.declareConst("time_zero", "Int")
			return []Val{{T: fmt.Sprintf("(= %s time_zero)", recv.T), S: "Bool", GT: boolT}}, true
		case ".Now":
			v := c.freshConst("now", "Int")
			return intV(v, rt), true
		case ".Unix":
			return intV(fmt.Sprintf("(+ (* %s 1000000000) %s)", argv(0).T, argv(1).T), rt), true
		case ".Since":
			v := c.freshConst("since", "Int")
			return intV(v, rt), true
		}
		return nil, false
	case "fmt":
		switch fn.Name() {
		case "Sprintf", "Sprint", "Sprintln":
			var vals []Val
			for i := range call.Args {
				vals = append(vals, argv(i))
			}
			// Sprintf("%v", x) / Sprintf("%f", x) of one number or string: a function of the verb and the value
			if fn.Name() == "Sprintf" && len(call.Args) == 2 {
				if tv, ok := fx.info.Types[call.Args[0]]; ok && tv.Value != nil {
					verb := strings.Trim(tv.Value.ExactString(), "\"")
					at := fx.info.TypeOf(call.Args[1])
					if (verb == "%v" || verb == "%f" || verb == "%d" || verb == "%s") && at != nil {
						if _, isIf := types.Unalias(at).Underlying().(*types.Interface); isIf && (verb == "%v" || verb == "%d" || verb == "%f") {
							// a boxed value (e.g. the variable of a multi-type case clause): a function of the boxed value
							// which, when the dynamic type is a predeclared integer type, is its decimal text, and for a
							// predeclared float type the float formatting of the verb
							a := fx.eval(st, call.Args[1])
							name := "fmt_iface_" + strings.TrimPrefix(verb, "%")
							c.declareFun(name, []string{"Iface"}, "Str")
							r := c.define("fmti", "Str", "("+name+" "+a.T+")")
							if verb != "%f" {
								for _, k := range []types.BasicKind{types.Int, types.Int8, types.Int16, types.Int32, types.Int64, types.Uint, types.Uint8, types.Uint16, types.Uint32, types.Uint64} {
									st.assume(fmt.Sprintf("(=> (= (i_tag %s) %d) (= %s (itoa (i_val %s))))", a.T, c.typeTag(types.Typ[k]), r, a.T))
								}
							}
							if verb != "%d" {
								rn := "fmt_real_" + strings.TrimPrefix(verb, "%")
								c.declareFun(rn, []string{"Real"}, "Str")
								for _, k := range []types.BasicKind{types.Float32, types.Float64} {
									u := c.unbox(a.T, types.Typ[k])
									st.assume(fmt.Sprintf("(=> (= (i_tag %s) %d) (= %s (%s %s)))", a.T, c.typeTag(types.Typ[k]), r, rn, u.T))
								}
							}
							return []Val{{T: r, S: "Str", GT: types.Typ[types.String]}}, true
						}
						if _, isIf := types.Unalias(at).Underlying().(*types.Interface); !isIf {
							a := fx.eval(st, call.Args[1])
							switch {
							case a.S == "Int" && verb != "%f" && verb != "%s":
								return []Val{{T: "(itoa " + a.T + ")", S: "Str", GT: types.Typ[types.String]}}, true
							case a.S == "Real":
								name := "fmt_real_" + strings.TrimPrefix(verb, "%")
								c.declareFun(name, []string{"Real"}, "Str")
								return []Val{{T: "(" + name + " " + a.T + ")", S: "Str", GT: types.Typ[types.String]}}, true
							case a.S == "Str" && verb != "%f" && verb != "%d":
								return []Val{{T: a.T, S: "Str", GT: types.Typ[types.String]}}, true
							}
						}
					}
				}
			}
			v := c.freshConst("fmt", "Str")
			return []Val{{T: v, S: "Str", GT: types.Typ[types.String]}}, true
		case "Errorf":
			for i := range call.Args {
				argv(i)
			}
			v := c.freshConst("err", "Iface")
			st.assume(fmt.Sprintf("(> (i_tag %s) 0)", v))
			return []Val{{T: v, S: "Iface", GT: fn.Type().(*types.Signature).Results().At(0).Type()}}, true
		case "Println", "Printf", "Print":
			for i := range call.Args {
				argv(i)
			}
			return []Val{{T: "0", S: "Int", GT: types.Typ[types.Int]}, {T: "(mkIface 0 0)", S: "Iface"}}, true
		}
	case "errors":
		if fn.Name() == "New" {
			argv(0)
			v := c.freshConst("err", "Iface")
			st.assume(fmt.Sprintf("(> (i_tag %s) 0)", v))
			return []Val{{T: v, S: "Iface", GT: fn.Type().(*types.Signature).Results().At(0).Type()}}, true
		}
	}
	return nil, false
}

// assumeLock: after a lock-discipline obligation its fact is assumed only in functions under contract; in the
// zero-annotation sweep the lock classes are not claimed and must not cut paths.
func (fx *Fx) assumeLock(st *State, phi string) {
	if fx.spec != nil {
		st.assume(phi)
	}
}

// entryAlloc: the allocation counter at function entry (objects reachable from the inputs are older).
func (fx *Fx) entryAlloc() string {
	if fx.entry != nil {
		return fx.entry.alloc
	}
	return "0"
}
