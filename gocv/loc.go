package main

// Locations (lvalues), heap keys, reads and writes.

import (
	"sort"
	"fmt"
	"go/ast"
	"go/types"
	"strings"
)

const (
	locVar = iota
	locHeap
	locElem
	locMap
	locBlank
	locNew
	locStructAt
	locGlobal
)

type pathSel struct {
	dt    string // datatype sort name
	field string
	idx   int
	st    *types.Struct
	T     types.Type // field type
}

type Loc struct {
	kind int
	obj  types.Object
	key  string // heap key
	srt  string // sort of the stored value (element sort)
	ref  string
	idx  string
	mapT *types.Map
	path []pathSel
	T    types.Type // type at the root (before path)
	// container (map / slice) reached through a lock-guarded field: writes to its contents need the write lock
	guardKey string
	guardRef string
}

func (l *Loc) locType() types.Type {
	if len(l.path) > 0 {
		return l.path[len(l.path)-1].T
	}
	return l.T
}

func structOf(t types.Type) (*types.Struct, types.Type, bool) {
	t = types.Unalias(t)
	ptr := false
	if p, ok := t.Underlying().(*types.Pointer); ok {
		ptr = true
		t = types.Unalias(p.Elem())
	}
	s, ok := t.Underlying().(*types.Struct)
	if !ok {
		return nil, nil, false
	}
	return s, t, ptr
}

func fieldKey(structT types.Type, field string) string {
	return "F:" + typeKey(structT) + "." + field
}

// selectField extends a value/location by one struct field.
// base is either a pointer to struct (heap) or a struct value at loc.
func (fx *Fx) fieldLoc(st *State, base *Loc, baseVal *Val, baseT types.Type, fieldIdx int, n ast.Node) *Loc {
	s, named, isPtr := structOf(baseT)
	if s == nil {
		fx.unsup(n, "field selection on %s", baseT)
	}
	f := s.Field(fieldIdx)
	if isPtr {
		var ref string
		if baseVal != nil {
			ref = baseVal.T
		} else {
			ref = fx.readLoc(st, base).T
		}
		fx.nilCheck(st, ref, n, "nil-deref")
		return &Loc{kind: locHeap, key: fieldKey(named, f.Name()), srt: fx.c.sortOf(f.Type()), ref: ref, T: f.Type()}
	}
	if opaqueNamed(named) {
		fx.unsup(n, "field of opaque type %s", named)
	}
	if base == nil {
		fx.unsup(n, "field of non-addressable struct value used as location")
	}
	nl := *base
	nl.path = append(append([]pathSel(nil), base.path...), pathSel{dt: fx.c.sortOf(named), field: f.Name(), idx: fieldIdx, st: s, T: f.Type()})
	return &nl
}

func (fx *Fx) nilCheck(st *State, ref string, n ast.Node, kind string) {
	if !fx.checkNil() {
		return
	}
	fx.c.oblige(st, "nil", kind+"("+fx.exprText(n)+")", fmt.Sprintf("(not (= %s 0))", ref), "non-nil "+fx.exprText(n), fx.w.pos(n.Pos()))
	st.assume(fmt.Sprintf("(not (= %s 0))", ref))
}

func (fx *Fx) checkNil() bool {
	return fx.spec != nil && fx.spec.Flags["checknil"] != ""
}

func (fx *Fx) exprText(n ast.Node) string {
	pos, end := fx.w.Fset.Position(n.Pos()), fx.w.Fset.Position(n.End())
	src := fx.w.source(pos.Filename)
	if src == nil || end.Offset > len(src) || pos.Offset > end.Offset {
		return "?"
	}
	t := string(src[pos.Offset:end.Offset])
	if inv := fx.recordedNames(); len(inv) > 0 {
		// obligation names carry expression text: a renamed variable keeps the name the contracts, the known findings
		// and the unclaimed list know it under
		type sub struct {
			off, n int
			to     string
		}
		var subs []sub
		ast.Inspect(n, func(x ast.Node) bool {
			if id, ok := x.(*ast.Ident); ok {
				if o, ok := inv[id.Name]; ok {
					if _, isVar := fx.info.ObjectOf(id).(*types.Var); isVar {
						subs = append(subs, sub{fx.w.Fset.Position(id.Pos()).Offset - pos.Offset, len(id.Name), o})
					}
				}
			}
			return true
		})
		sort.Slice(subs, func(i, j int) bool { return subs[i].off > subs[j].off })
		for _, sb := range subs {
			if sb.off >= 0 && sb.off+sb.n <= len(t) {
				t = t[:sb.off] + sb.to + t[sb.off+sb.n:]
			}
		}
	}
	t = strings.Join(strings.Fields(t), " ")
	if len(t) > 60 {
		t = t[:60]
	}
	return t
}

func (fx *Fx) lvalue(st *State, e ast.Expr) *Loc {
	switch e := e.(type) {
	case *ast.ParenExpr:
		return fx.lvalue(st, e.X)
	case *ast.Ident:
		if e.Name == "_" {
			return &Loc{kind: locBlank}
		}
		obj := fx.info.ObjectOf(e)
		v, ok := obj.(*types.Var)
		if !ok {
			fx.unsup(e, "assignment to %s", e.Name)
		}
		if isGlobal(v) {
			return &Loc{kind: locGlobal, key: "GV:" + v.Pkg().Name() + "." + v.Name(), srt: fx.c.sortOf(v.Type()), ref: "0", T: v.Type(), obj: v}
		}
		if fx.c.boxedVars[v] {
			fx.ensureVar(st, v)
			if s, named, isPtr := structOf(v.Type()); s != nil && !isPtr && !opaqueNamed(named) {
				return &Loc{kind: locStructAt, ref: st.vars[v], T: v.Type()}
			}
			return &Loc{kind: locHeap, key: "P:" + typeKey(v.Type()), srt: fx.c.sortOf(v.Type()), ref: st.vars[v], T: v.Type()}
		}
		fx.ensureVar(st, v)
		return &Loc{kind: locVar, obj: v, T: v.Type()}
	case *ast.SelectorExpr:
		sel := fx.info.Selections[e]
		if sel == nil {
			// package-qualified variable
			if v, ok := fx.info.ObjectOf(e.Sel).(*types.Var); ok && isGlobal(v) {
				return &Loc{kind: locGlobal, key: "GV:" + v.Pkg().Name() + "." + v.Name(), srt: fx.c.sortOf(v.Type()), ref: "0", T: v.Type(), obj: v}
			}
			fx.unsup(e, "selector as location")
		}
		if sel.Kind() != types.FieldVal {
			fx.unsup(e, "method value as location")
		}
		xt := fx.info.TypeOf(e.X)
		var base *Loc
		var bval *Val
		if _, _, isPtr := structOf(xt); isPtr {
			v := fx.eval(st, e.X)
			bval = &v
		} else {
			base = fx.lvalueOrTemp(st, e.X)
		}
		cur := xt
		var loc *Loc
		for i, idx := range sel.Index() {
			if i == 0 {
				loc = fx.fieldLoc(st, base, bval, cur, idx, e)
			} else {
				if _, _, isPtr := structOf(cur); isPtr {
					v := fx.readLoc(st, loc)
					loc = fx.fieldLoc(st, nil, &v, cur, idx, e)
				} else {
					loc = fx.fieldLoc(st, loc, nil, cur, idx, e)
				}
			}
			cur = loc.locType()
		}
		return loc
	case *ast.IndexExpr:
		xt := types.Unalias(fx.info.TypeOf(e.X))
		switch u := xt.Underlying().(type) {
		case *types.Slice:
			s := fx.eval(st, e.X)
			s.T = fx.c.define("s", "Slice", s.T)
			fx.wfSlice(st, s.T)
			i := fx.eval(st, e.Index)
			fx.boundsCheck(st, i.T, "(s_len "+s.T+")", e)
			l := &Loc{kind: locElem, key: "E:" + typeKey(u.Elem()), srt: fx.c.sortOf(u.Elem()), ref: "(s_base " + s.T + ")", idx: fmt.Sprintf("(+ (s_off %s) %s)", s.T, i.T), T: u.Elem()}
			l.guardKey, l.guardRef = fx.containerGuard(st, e.X)
			return l
		case *types.Map:
			m := fx.eval(st, e.X)
			k := fx.eval(st, e.Index)
			k = fx.convertTo(st, k, u.Key())
			l := &Loc{kind: locMap, key: typeKey(xt), ref: m.T, idx: k.T, mapT: u, T: u.Elem(), srt: fx.c.sortOf(u.Elem())}
			l.guardKey, l.guardRef = fx.containerGuard(st, e.X)
			return l
		case *types.Pointer:
			if arr, ok := types.Unalias(u.Elem()).Underlying().(*types.Array); ok {
				_ = arr
			}
			fx.unsup(e, "index through pointer to array")
		case *types.Array:
			fx.unsup(e, "array element as location")
		}
		fx.unsup(e, "index expression on %s as location", xt)
	case *ast.StarExpr:
		p := fx.eval(st, e.X)
		if il, ok := fx.c.interior[p.T]; ok {
			return il
		}
		fx.nilCheck(st, p.T, e, "nil-deref")
		pt := types.Unalias(p.GT).Underlying().(*types.Pointer)
		if s, named, _ := structOf(pt.Elem()); s != nil && !opaqueNamed(named) {
			return &Loc{kind: locStructAt, ref: p.T, T: pt.Elem()}
		}
		return &Loc{kind: locHeap, key: "P:" + typeKey(pt.Elem()), srt: fx.c.sortOf(pt.Elem()), ref: p.T, T: pt.Elem()}
	}
	fx.unsup(e, "location %T", e)
	return nil
}

// lvalueOrTemp: location of an addressable struct expression, or a temporary holding its value.
func (fx *Fx) lvalueOrTemp(st *State, e ast.Expr) *Loc {
	switch x := unparen(e).(type) {
	case *ast.Ident, *ast.SelectorExpr, *ast.IndexExpr, *ast.StarExpr:
		if id, ok := x.(*ast.Ident); ok {
			if _, isVar := fx.info.ObjectOf(id).(*types.Var); !isVar {
				break
			}
		}
		if ix, ok := x.(*ast.IndexExpr); ok {
			if _, isMap := types.Unalias(fx.info.TypeOf(ix.X)).Underlying().(*types.Map); isMap {
				break
			}
		}
		return fx.lvalue(st, e)
	}
	v := fx.eval(st, e)
	tmp := types.NewVar(e.Pos(), fx.pkg.Types, "$tmp", fx.info.TypeOf(e))
	st.vars[tmp] = fx.c.define("tmp", v.S, v.T)
	return &Loc{kind: locVar, obj: tmp, T: tmp.Type()}
}

func isGlobal(v *types.Var) bool {
	return v.Pkg() != nil && v.Parent() == v.Pkg().Scope()
}

// ensureVar makes sure a (captured / not yet seen) variable has a symbolic value.
func (fx *Fx) ensureVar(st *State, v types.Object) {
	if _, ok := st.vars[v]; ok {
		return
	}
	// captured variable of an enclosing function, or a variable the executor has not declared: free input
	srt := fx.c.varSort(v)
	name := fx.c.freshConst("cap_"+v.Name(), srt)
	if fx.c.persist == nil {
		fx.c.persist = map[string]bool{}
	}
	fx.c.persist[name] = true
	if fx.c.boxedVars[v] {
		st.assume(fmt.Sprintf("(and (> %s 0) (<= %s %s))", name, name, st.alloc))
	} else if ra := fx.c.rangeAssume(name, v.Type()); ra != "" {
		st.assume(ra)
		if rf := fx.c.refTypeFact(name, v.Type()); rf != "" {
			st.assume(rf)
		}
		// a captured variable's referent existed before this activation started
		switch types.Unalias(v.Type()).Underlying().(type) {
		case *types.Pointer, *types.Chan, *types.Map:
			st.assume(fmt.Sprintf("(<= %s %s)", name, fx.entryAlloc()))
		case *types.Slice:
			st.assume(fmt.Sprintf("(<= (s_base %s) %s)", name, fx.entryAlloc()))
		}
	}
	st.vars[v] = name
	fx.c.inputs = append(fx.c.inputs, ModelVar{Name: v.Name(), Term: name})
	if fx.entry != nil {
		if _, has := fx.entry.vars[v]; !has {
			fx.entry.vars[v] = name
		}
	}
}

func (fx *Fx) rootRead(st *State, l *Loc) Val {
	c := fx.c
	switch l.kind {
	case locVar:
		return Val{T: st.vars[l.obj], S: c.sortOf(l.T), GT: l.T}
	case locHeap, locGlobal:
		fx.guardCheck(st, l, false)
		h := st.heap(l.key, "(Array Int "+l.srt+")")
		v := Val{T: fmt.Sprintf("(select %s %s)", h, l.ref), S: l.srt, GT: l.T}
		fx.loadKey = l.key
		fx.loadFromEntry = strings.HasSuffix(h, "_e0")
		defer func() { fx.loadFromEntry = false }()
		v = fx.loaded(st, v)
		fx.loadKey = ""
		return v
	case locElem:
		h := st.heap(l.key, "(Array Int (Array Int "+l.srt+"))")
		v := Val{T: fmt.Sprintf("(select (select %s %s) %s)", h, l.ref, l.idx), S: l.srt, GT: l.T}
		return fx.loaded(st, v)
	case locMap:
		ks, vs := c.sortOf(l.mapT.Key()), c.sortOf(l.mapT.Elem())
		hd := st.heap("MD:"+l.key, "(Array Int (Array "+ks+" Bool))")
		hv := st.heap("MV:"+l.key, "(Array Int (Array "+ks+" "+vs+"))")
		v := Val{T: fmt.Sprintf("(ite (select (select %s %s) %s) (select (select %s %s) %s) %s)", hd, l.ref, l.idx, hv, l.ref, l.idx, c.zero(l.mapT.Elem())), S: vs, GT: l.T}
		return fx.loaded(st, v)
	case locStructAt:
		return fx.readStructAt(st, l.ref, l.T)
	}
	panic("rootRead: bad location")
}

// loaded: facts about values read from the heap (type ranges; references were allocated earlier).
func (fx *Fx) loaded(st *State, v Val) Val {
	if v.GT == nil {
		return v
	}
	if fx.loadKey != "" && fx.w.nonNilField(fx.loadKey) {
		switch v.S {
		case "Int":
			st.assume(fmt.Sprintf("(not (= %s 0))", v.T))
		case "Slice":
			st.assume(fmt.Sprintf("(not (= (s_base %s) 0))", v.T))
		case "Iface":
			st.assume(fmt.Sprintf("(not (= (i_tag %s) 0))", v.T))
		}
	}
	switch v.S {
	case "Int", "Slice", "Iface":
		t := fx.c.define("ld", v.S, v.T)
		if ra := fx.c.rangeAssume(t, v.GT); ra != "" {
			st.assume(ra)
		}
		if rf := fx.c.refTypeFact(t, v.GT); rf != "" {
			st.assume(rf)
		}
		bound := st.alloc
		if fx.loadFromEntry && fx.entry != nil {
			bound = fx.entry.alloc // read from the heap as it was at entry: the referent is older than this activation
		}
		switch types.Unalias(v.GT).Underlying().(type) {
		case *types.Pointer, *types.Chan, *types.Map:
			st.assume(fmt.Sprintf("(<= %s %s)", t, bound))
		case *types.Slice:
			st.assume(fmt.Sprintf("(<= (s_base %s) %s)", t, bound))
		}
		v.T = t
	}
	return v
}

func (fx *Fx) readStructAt(st *State, ref string, t types.Type) Val {
	s, named, _ := structOf(t)
	srt := fx.c.sortOf(t)
	if !strings.HasPrefix(srt, "S_") {
		panic(unsupported{fmt.Sprintf("whole-struct read of opaque type %s at %s", t, fx.w.pos(fx.curPos))})
	}
	if s.NumFields() == 0 {
		return Val{T: "mk_" + srt, S: srt, GT: t}
	}
	var fs []string
	for i := 0; i < s.NumFields(); i++ {
		f := s.Field(i)
		fsrt := fx.c.sortOf(f.Type())
		h := st.heap(fieldKey(named, f.Name()), "(Array Int "+fsrt+")")
		fs = append(fs, fmt.Sprintf("(select %s %s)", h, ref))
	}
	return Val{T: "(mk_" + srt + " " + strings.Join(fs, " ") + ")", S: srt, GT: t}
}

func (fx *Fx) writeStructAt(st *State, ref string, t types.Type, v Val) {
	s, named, _ := structOf(t)
	srt := fx.c.sortOf(t)
	vt := fx.c.define("sv", srt, v.T)
	for i := 0; i < s.NumFields(); i++ {
		f := s.Field(i)
		fsrt := fx.c.sortOf(f.Type())
		key := fieldKey(named, f.Name())
		h := st.heap(key, "(Array Int "+fsrt+")")
		comp := fmt.Sprintf("(%s__%s %s)", srt, f.Name(), vt)
		if fx.w.nonNilField(key) {
			// a whole struct stored in memory (composite literal, *p = v, boxed local): fields declared nonnil are
			// established here - that declaration is assumed at every read
			phi := ""
			switch fsrt {
			case "Int":
				phi = fmt.Sprintf("(not (= %s 0))", comp)
			case "Slice":
				phi = fmt.Sprintf("(not (= (s_base %s) 0))", comp)
			case "Iface":
				phi = fmt.Sprintf("(not (= (i_tag %s) 0))", comp)
			}
			if phi != "" {
				fx.c.oblige(st, "repinv", "nonnil("+key+")", phi, "field declared nonnil is initialised with a non-nil value", fx.w.pos(fx.curPos))
			}
		}
		st.setHeap(key, "(Array Int "+fsrt+")", fmt.Sprintf("(store %s %s %s)", h, ref, comp))
	}
}

func (fx *Fx) readLoc(st *State, l *Loc) Val {
	v := fx.rootRead(st, l)
	for _, p := range l.path {
		v = Val{T: fmt.Sprintf("(%s__%s %s)", p.dt, p.field, v.T), S: fx.c.sortOf(p.T), GT: p.T}
	}
	return v
}

func (fx *Fx) updPath(root Val, path []pathSel, v Val) string {
	if len(path) == 0 {
		return v.T
	}
	p := path[0]
	inner := Val{T: fmt.Sprintf("(%s__%s %s)", p.dt, p.field, root.T), S: fx.c.sortOf(p.T), GT: p.T}
	nv := fx.updPath(inner, path[1:], v)
	var fs []string
	for i := 0; i < p.st.NumFields(); i++ {
		if i == p.idx {
			fs = append(fs, nv)
		} else {
			fs = append(fs, fmt.Sprintf("(%s__%s %s)", p.dt, p.st.Field(i).Name(), root.T))
		}
	}
	return "(mk_" + p.dt + " " + strings.Join(fs, " ") + ")"
}

func (fx *Fx) writeLoc(st *State, l *Loc, v Val) {
	c := fx.c
	if l.kind == locBlank {
		return
	}
	if len(l.path) > 0 {
		root := fx.rootRead(st, l)
		root.T = c.define("root", root.S, root.T)
		v = Val{T: fx.updPath(root, l.path, v), S: root.S, GT: l.T}
	}
	switch l.kind {
	case locVar:
		st.vars[l.obj] = c.define(l.obj.Name(), c.sortOf(l.T), v.T)
	case locHeap, locGlobal:
		fx.guardCheck(st, l, true)
		hs := "(Array Int " + l.srt + ")"
		h := st.heap(l.key, hs)
		if len(l.path) == 0 && fx.w.nonNilField(l.key) {
			phi := ""
			switch l.srt {
			case "Int":
				phi = fmt.Sprintf("(not (= %s 0))", v.T)
			case "Slice":
				phi = fmt.Sprintf("(not (= (s_base %s) 0))", v.T)
			case "Iface":
				phi = fmt.Sprintf("(not (= (i_tag %s) 0))", v.T)
			}
			if phi != "" {
				c.oblige(st, "repinv", "nonnil("+l.key+")", phi, "field declared nonnil is assigned a non-nil value", fx.w.pos(fx.curPos))
			}
		}
		st.setHeap(l.key, hs, fmt.Sprintf("(store %s %s %s)", h, l.ref, v.T))
	case locElem:
		fx.contentGuardCheck(st, l)
		hs := "(Array Int (Array Int " + l.srt + "))"
		h := st.heap(l.key, hs)
		st.setHeap(l.key, hs, fmt.Sprintf("(store %s %s (store (select %s %s) %s %s))", h, l.ref, h, l.ref, l.idx, v.T))
	case locMap:
		fx.contentGuardCheck(st, l)
		ks, vs := c.sortOf(l.mapT.Key()), c.sortOf(l.mapT.Elem())
		fx.c.oblige(st, "panic", "nil-map-write("+l.key+")", fmt.Sprintf("(not (= %s 0))", l.ref), "assignment to entry in nil map", fx.w.pos(fx.curPos))
		st.assume(fmt.Sprintf("(not (= %s 0))", l.ref))
		hds, hvs := "(Array Int (Array "+ks+" Bool))", "(Array Int (Array "+ks+" "+vs+"))"
		hd := st.heap("MD:"+l.key, hds)
		hv := st.heap("MV:"+l.key, hvs)
		st.setHeap("MD:"+l.key, hds, fmt.Sprintf("(store %s %s (store (select %s %s) %s true))", hd, l.ref, hd, l.ref, l.idx))
		st.setHeap("MV:"+l.key, hvs, fmt.Sprintf("(store %s %s (store (select %s %s) %s %s))", hv, l.ref, hv, l.ref, l.idx, v.T))
	case locStructAt:
		fx.writeStructAt(st, l.ref, l.T, v)
	default:
		panic("writeLoc: bad location")
	}
}

func (fx *Fx) boundsCheck(st *State, idx, length string, n ast.Node) {
	phi := fmt.Sprintf("(and (<= 0 %s) (< %s %s))", idx, idx, length)
	fx.c.oblige(st, "panic", "index("+fx.exprText(n)+")", phi, "index in range: "+fx.exprText(n), fx.w.pos(n.Pos()))
	st.assume(phi)
}

// identity term of a lock-like object (mutex, wait group, once) located at loc
func (fx *Fx) locIdentity(st *State, l *Loc) string {
	switch l.kind {
	case locHeap:
		name := "addr_" + sanitize(l.key)
		for _, p := range l.path {
			name += "_" + p.field
		}
		fx.c.declareFun(name, []string{"Int"}, "Int")
		return fmt.Sprintf("(%s %s)", name, l.ref)
	case locVar:
		// local sync object: its identity is a per-variable constant
		name := "addr_local_" + sanitize(l.obj.Name())
		for _, p := range l.path {
			name += "_" + p.field
		}
		fx.c.declareConst(name, "Int")
		return name
	case locGlobal:
		name := "addr_" + sanitize(l.key)
		fx.c.declareConst(name, "Int")
		return name
	case locStructAt:
		return l.ref
	}
	return fx.c.freshConst("addr", "Int")
}

// pureReadLoc reads a location without adding facts or definitions (usable inside contracts).
func (fx *Fx) pureReadLoc(st *State, l *Loc) Val {
	c := fx.c
	var v Val
	switch l.kind {
	case locVar:
		v = Val{T: st.vars[l.obj], S: c.sortOf(l.T), GT: l.T}
	case locHeap, locGlobal:
		h := st.heap(l.key, "(Array Int "+l.srt+")")
		v = Val{T: fmt.Sprintf("(select %s %s)", h, l.ref), S: l.srt, GT: l.T}
	case locElem:
		h := st.heap(l.key, "(Array Int (Array Int "+l.srt+"))")
		v = Val{T: fmt.Sprintf("(select (select %s %s) %s)", h, l.ref, l.idx), S: l.srt, GT: l.T}
	case locStructAt:
		v = fx.readStructAt(st, l.ref, l.T)
	default:
		sfail("cannot read this location in a contract")
	}
	for _, p := range l.path {
		v = Val{T: fmt.Sprintf("(%s__%s %s)", p.dt, p.field, v.T), S: c.sortOf(p.T), GT: p.T}
	}
	return v
}

// guardCheck: access discipline for fields declared `guarded_by <lock field>`: the lock of the same object is
// held (read: any mode, write: write mode) unless the object was allocated by this activation (not yet published).
func (fx *Fx) guardCheck(st *State, l *Loc, write bool) {
	if cls := fx.w.atomicClass(l.key); cls != "" && !fx.inAtomic {
		// plain access to a field declared atomic (allowed only on an object this activation allocated)
		fresh := "false"
		if fx.entry != nil {
			fresh = fmt.Sprintf("(> %s %s)", l.ref, fx.entry.alloc)
		}
		what := "read"
		if write {
			what = "write"
		}
		fx.c.oblige(st, "atomic", "plain-"+what+"("+strings.TrimPrefix(l.key, "F:")+")", fresh, "field declared atomic is accessed through sync/atomic only", fx.w.pos(fx.curPos))
	}
	lk := fx.w.guardOf(l.key)
	if lk == "" || fx.noGuard {
		return
	}
	name := "addr_" + sanitize(lk)
	var mu string
	if strings.HasPrefix(lk, "GV:") {
		fx.c.declareConst(name, "Int")
		mu = name
	} else {
		fx.c.declareFun(name, []string{"Int"}, "Int")
		mu = fmt.Sprintf("(%s %s)", name, l.ref)
	}
	held := fmt.Sprintf("(select %s %s)", st.heap("LK", "(Array Int Int)"), mu)
	cond, what := fmt.Sprintf("(>= %s 1)", held), "read"
	if write {
		cond, what = fmt.Sprintf("(= %s 2)", held), "write"
	}
	fresh := "false"
	if fx.entry != nil {
		fresh = fmt.Sprintf("(> %s %s)", l.ref, fx.entry.alloc)
	}
	phi := fmt.Sprintf("(or %s %s)", fresh, cond)
	fx.c.oblige(st, "guarded-by", what+"("+strings.TrimPrefix(l.key, "F:")+")", phi, what+" of "+strings.TrimPrefix(l.key, "F:")+" with "+strings.TrimPrefix(lk, "F:")+" held", fx.w.pos(fx.curPos))
}

// containerGuard: if the container expression is a field declared guarded_by, the field's heap key and object.
func (fx *Fx) containerGuard(st *State, x ast.Expr) (string, string) {
	sel, ok := unparen(x).(*ast.SelectorExpr)
	if !ok {
		return "", ""
	}
	s := fx.info.Selections[sel]
	if s == nil || s.Kind() != types.FieldVal || len(s.Index()) != 1 {
		return "", ""
	}
	_, named, isPtr := structOf(fx.info.TypeOf(sel.X))
	if named == nil || !isPtr {
		return "", ""
	}
	st2, _, _ := structOf(fx.info.TypeOf(sel.X))
	key := fieldKey(named, st2.Field(s.Index()[0]).Name())
	if fx.w.guardOf(key) == "" {
		return "", ""
	}
	save := fx.c.dry
	fx.c.dry = true // the receiver was evaluated already; re-evaluation only to obtain its term
	ref := fx.eval(st, sel.X).T
	fx.c.dry = save
	return key, ref
}

// containerGuardKey: heap key and object of a field selection x.f through a pointer (whatever its protection class).
func (fx *Fx) containerGuardKey(st *State, x ast.Expr) (string, string) {
	sel, ok := unparen(x).(*ast.SelectorExpr)
	if !ok {
		return "", ""
	}
	s := fx.info.Selections[sel]
	if s == nil || s.Kind() != types.FieldVal || len(s.Index()) != 1 {
		return "", ""
	}
	st2, named, isPtr := structOf(fx.info.TypeOf(sel.X))
	if named == nil || !isPtr {
		return "", ""
	}
	key := fieldKey(named, st2.Field(s.Index()[0]).Name())
	save := fx.c.dry
	fx.c.dry = true
	ref := fx.eval(st, sel.X).T
	fx.c.dry = save
	return key, ref
}

func (fx *Fx) contentGuardCheck(st *State, l *Loc) {
	if l.guardKey == "" {
		return
	}
	fx.guardCheck(st, &Loc{kind: locHeap, key: l.guardKey, ref: l.guardRef}, true)
}
