package main

// Syntactic over-approximation of what a statement / function may modify:
// local variables, heap keys, event log, allocation.  Used for loop havoc
// and as the default frame of callees without a `modifies` clause.

import (
	"go/ast"
	"go/token"
	"go/types"
	"strings"

	"golang.org/x/tools/go/packages"
)

type modSet struct {
	vars   map[types.Object]bool
	heaps  map[string]bool
	fresh  map[string]bool // heaps changed only at references allocated by the callee
	all    bool
	emits  bool // may append arbitrary events
	opaque bool // may append opaque events (unknown code reached through function values / external interfaces)
	fncall bool // repository code reached from here calls through function values: the per-value call counters move
	allocs bool
}

func newModSet() *modSet {
	return &modSet{vars: map[types.Object]bool{}, heaps: map[string]bool{}, fresh: map[string]bool{}}
}

// markFresh: the heap is written only at references allocated by the code being summarised.
func (m *modSet) markFresh(key string) {
	m.allocs = true
	if !m.heaps[key] {
		m.fresh[key] = true
	}
}

func (m *modSet) addAll(o *modSet) {
	if o == nil {
		return
	}
	for k := range o.heaps {
		m.heaps[k] = true
		delete(m.fresh, k)
	}
	for k := range o.fresh {
		if !m.heaps[k] {
			m.fresh[k] = true
		}
	}
	m.all = m.all || o.all
	m.emits = m.emits || o.emits
	m.opaque = m.opaque || o.opaque
	m.fncall = m.fncall || o.fncall
	m.allocs = m.allocs || o.allocs
}

func (w *World) modsOfNode(fx *Fx, n ast.Node) *modSet {
	ms := newModSet()
	var callees []string
	w.collectMods(fx.pkg, fx.c, n, ms, &callees)
	for _, k := range callees {
		ms.addAll(w.modsOfFunc(k, fx.c, nil))
	}
	return ms
}

// modsOfFunc: transitive summary for a function key (cached).  Direct effects of every function are
// collected once (directMods); the summary is the union over the functions reachable in the call graph,
// where functions with an explicit frame (modifies clause / assumed contract) are leaves.
func (w *World) modsOfFunc(key string, c *Ctx, visiting map[string]bool) *modSet {
	if ms, ok := w.mods[key]; ok {
		return ms
	}
	out := newModSet()
	seen := map[string]bool{}
	stack := []string{key}
	for len(stack) > 0 {
		k := stack[len(stack)-1]
		stack = stack[:len(stack)-1]
		if seen[k] {
			continue
		}
		seen[k] = true
		if done, ok := w.mods[k]; ok && k != key {
			out.addAll(done)
			continue
		}
		d := w.directMods(k)
		out.addAll(d.ms)
		stack = append(stack, d.callees...)
	}
	out.vars = map[types.Object]bool{}
	// seen from a caller, lock and once state are left balanced (checked by the callee's own lock-released@exit)
	delete(out.heaps, "LK")
	delete(out.heaps, "ONCE")
	delete(out.heaps, "NRT") // per-activation counters of direct calls (flag countresult)
	w.mods[key] = out
	return out
}

type directSummary struct {
	ms      *modSet
	callees []string
}

func (w *World) directMods(key string) *directSummary {
	if w.direct == nil {
		w.direct = map[string]*directSummary{}
	}
	if d, ok := w.direct[key]; ok {
		return d
	}
	d := &directSummary{ms: newModSet()}
	w.direct[key] = d
	if sp, ok := w.Specs[key]; ok && (sp.ModSet || sp.Assumed) {
		ms := d.ms
		for _, m := range sp.Modifies {
			if m == "*" {
				ms.all = true
			} else if strings.HasPrefix(m, "fresh ") {
				ms.fresh[strings.TrimSpace(strings.TrimPrefix(m, "fresh "))] = true
				ms.allocs = true
			} else {
				ms.heaps[m] = true
			}
		}
		inferEmits := false
		switch sp.Flags["emits"] {
		case "":
			inferEmits = true
			fallthrough
		case "none":
			if len(sp.Emits()) > 0 {
				ms.emits = true
			}
		default:
			ms.emits = true
		}
		if !sp.Assumed {
			// repo function with explicit frame: events (unless declared) and allocation inferred from the body
			if fi, ok := w.Funcs[key]; ok {
				b := newModSet()
				var callees []string
				w.collectMods(fi.Pkg, nil, fi.Body, b, &callees)
				sub := newModSet()
				sub.addAll(b)
				for _, ck := range callees {
					sub.addAll(w.modsOfFunc(ck, nil, nil))
				}
				if inferEmits {
					ms.emits = ms.emits || sub.emits
				}
				ms.allocs = ms.allocs || sub.allocs
				ms.fncall = sub.fncall || sub.all
			}
		}
		// (assumed contracts stand for unknown code: calls made inside unknown code are not counted by the per-value
		// call counters, which count the calls made by code under contract)
		if sp.Flags["allocs"] != "" {
			ms.allocs = true
		}
		return d
	}
	fi, ok := w.Funcs[key]
	if !ok {
		// external function without a contract: assumed not to touch the heaps under analysis
		return d
	}
	w.collectMods(fi.Pkg, nil, fi.Body, d.ms, &d.callees)
	return d
}

func (s *FuncSpec) Emits() []*Clause { return s.EmitsC }

func (w *World) collectMods(pkg *packages.Package, c *Ctx, n ast.Node, ms *modSet, callees *[]string) {
	info := pkg.TypesInfo
	markLHS := func(e ast.Expr) {
		w.markStore(pkg, c, e, ms)
	}
	ast.Inspect(n, func(x ast.Node) bool {
		switch s := x.(type) {
		case *ast.AssignStmt:
			for _, l := range s.Lhs {
				markLHS(l)
			}
		case *ast.IncDecStmt:
			markLHS(s.X)
		case *ast.RangeStmt:
			if s.Tok == token.ASSIGN {
				if s.Key != nil {
					markLHS(s.Key)
				}
				if s.Value != nil {
					markLHS(s.Value)
				}
			}
			if t := info.TypeOf(s.X); t != nil {
				if _, ok := types.Unalias(t).Underlying().(*types.Chan); ok {
					ms.emits = true
				}
			}
		case *ast.SendStmt, *ast.GoStmt, *ast.SelectStmt:
			ms.emits = true
		case *ast.UnaryExpr:
			if s.Op == token.ARROW {
				ms.emits = true
			}
			if s.Op == token.AND {
				if id, ok := unparen(s.X).(*ast.Ident); ok {
					// the address of a local variable: the variable lives in a cell (or, for a struct, in the field heaps)
					// that this activation allocates
					if v, ok := info.ObjectOf(id).(*types.Var); ok && !v.IsField() && v.Parent() != nil && v.Parent() != v.Pkg().Scope() {
						ms.allocs = true
						if st, named, isPtr := structOf(v.Type()); st != nil && !isPtr && !opaqueNamed(named) {
							for i := 0; i < st.NumFields(); i++ {
								ms.markFresh(fieldKey(named, st.Field(i).Name()))
							}
						} else {
							ms.markFresh("P:" + typeKey(v.Type()))
						}
					}
				}
				if _, ok := unparen(s.X).(*ast.CompositeLit); ok {
					ms.allocs = true
					if t := info.TypeOf(s.X); t != nil {
						if st, named, _ := structOf(t); st != nil && !opaqueNamed(named) {
							for i := 0; i < st.NumFields(); i++ {
								ms.markFresh(fieldKey(named, st.Field(i).Name()))
							}
						} else {
							ms.markFresh("P:" + typeKey(t))
						}
					}
				}
			}
		case *ast.CompositeLit:
			if t := info.TypeOf(s); t != nil {
				switch u := types.Unalias(t).Underlying().(type) {
				case *types.Slice:
					ms.allocs = true
					ms.markFresh("E:" + typeKey(u.Elem()))
				case *types.Map:
					ms.allocs = true
					ms.markFresh("MD:" + typeKey(t))
					ms.markFresh("MV:" + typeKey(t))
				}
			}
		case *ast.FuncLit:
			ms.allocs = true
		case *ast.DeclStmt:
			// boxed locals allocate a cell
			if gd, ok := s.Decl.(*ast.GenDecl); ok && gd.Tok == token.VAR {
				for _, sp := range gd.Specs {
					for _, nm := range sp.(*ast.ValueSpec).Names {
						if obj := info.Defs[nm]; obj != nil && c != nil && c.boxedVars[obj] {
							ms.allocs = true
							ms.heaps["P:"+typeKey(obj.Type())] = true
						}
					}
				}
			}
		case *ast.CallExpr:
			if sel, ok := unparen(s.Fun).(*ast.SelectorExpr); ok {
				// a pointer-receiver method called on a local struct variable takes its address implicitly
				if id, ok := unparen(sel.X).(*ast.Ident); ok {
					if v, ok := info.ObjectOf(id).(*types.Var); ok && !v.IsField() && v.Parent() != nil && v.Pkg() != nil && v.Parent() != v.Pkg().Scope() {
						if fn, ok := info.ObjectOf(sel.Sel).(*types.Func); ok {
							if sig, ok := fn.Type().(*types.Signature); ok && sig.Recv() != nil {
								if _, isPtrRecv := types.Unalias(sig.Recv().Type()).(*types.Pointer); isPtrRecv {
									if _, varIsPtr := types.Unalias(v.Type()).Underlying().(*types.Pointer); !varIsPtr {
										if _, isIface := types.Unalias(v.Type()).Underlying().(*types.Interface); !isIface {
											ms.allocs = true
										}
									}
								}
							}
						}
					}
				}
			}
			w.callMods(pkg, c, s, ms, callees)
		}
		return true
	})
}

func (w *World) markStore(pkg *packages.Package, c *Ctx, e ast.Expr, ms *modSet) {
	info := pkg.TypesInfo
	switch l := unparen(e).(type) {
	case *ast.Ident:
		if l.Name == "_" {
			return
		}
		obj := info.ObjectOf(l)
		if v, ok := obj.(*types.Var); ok {
			if isGlobal(v) {
				ms.heaps["GV:"+v.Pkg().Name()+"."+v.Name()] = true
				return
			}
			ms.vars[v] = true
			if c != nil && c.boxedVars[v] {
				ms.heaps["P:"+typeKey(v.Type())] = true
				ms.allocs = true
			}
		}
	case *ast.SelectorExpr:
		sel := info.Selections[l]
		if sel == nil {
			if v, ok := info.ObjectOf(l.Sel).(*types.Var); ok && isGlobal(v) {
				ms.heaps["GV:"+v.Pkg().Name()+"."+v.Name()] = true
			}
			return
		}
		// walk the selection path; the last pointer hop decides heap vs. variable
		cur := info.TypeOf(l.X)
		heapKey := ""
		throughPtr := false
		for _, idx := range sel.Index() {
			s, named, isPtr := structOf(cur)
			if s == nil {
				return
			}
			f := s.Field(idx)
			if isPtr {
				throughPtr = true
				heapKey = fieldKey(named, f.Name())
			}
			cur = f.Type()
		}
		if throughPtr {
			// a store through a local that only ever holds an object allocated by this function touches fresh memory only
			if id, ok := unparen(l.X).(*ast.Ident); ok && len(sel.Index()) == 1 && w.freshLocal(pkg, id) {
				if !ms.heaps[heapKey] {
					ms.fresh[heapKey] = true
					ms.allocs = true
				}
				return
			}
			ms.heaps[heapKey] = true
			delete(ms.fresh, heapKey)
			return
		}
		w.markStore(pkg, c, l.X, ms)
	case *ast.IndexExpr:
		xt := info.TypeOf(l.X)
		if xt == nil {
			return
		}
		switch u := types.Unalias(xt).Underlying().(type) {
		case *types.Slice:
			ms.heaps["E:"+typeKey(u.Elem())] = true
		case *types.Map:
			ms.heaps["MD:"+typeKey(xt)] = true
			ms.heaps["MV:"+typeKey(xt)] = true
		case *types.Array:
			w.markStore(pkg, c, l.X, ms)
		}
	case *ast.StarExpr:
		pt, ok := types.Unalias(info.TypeOf(l.X)).Underlying().(*types.Pointer)
		if !ok {
			return
		}
		if s, named, _ := structOf(pt.Elem()); s != nil && !opaqueNamed(named) {
			for i := 0; i < s.NumFields(); i++ {
				ms.heaps[fieldKey(named, s.Field(i).Name())] = true
			}
			return
		}
		ms.heaps["P:"+typeKey(pt.Elem())] = true
	}
}

func calleeOf(info *types.Info, call *ast.CallExpr) *types.Func {
	switch f := unparen(call.Fun).(type) {
	case *ast.Ident:
		if fn, ok := info.ObjectOf(f).(*types.Func); ok {
			return fn
		}
	case *ast.SelectorExpr:
		if fn, ok := info.ObjectOf(f.Sel).(*types.Func); ok {
			return fn
		}
	case *ast.IndexExpr:
		if id, ok := f.X.(*ast.Ident); ok {
			if fn, ok := info.ObjectOf(id).(*types.Func); ok {
				return fn
			}
		}
	}
	return nil
}

func (w *World) callMods(pkg *packages.Package, c *Ctx, call *ast.CallExpr, ms *modSet, callees *[]string) {
	note := func(k string) {
		if callees != nil {
			*callees = append(*callees, k)
		} else {
			ms.addAll(w.modsOfFunc(k, c, nil))
		}
	}
	info := pkg.TypesInfo
	if tv, ok := info.Types[call.Fun]; ok && tv.IsType() {
		return // conversion
	}
	if id, ok := unparen(call.Fun).(*ast.Ident); ok {
		if b, ok := info.ObjectOf(id).(*types.Builtin); ok {
			switch b.Name() {
			case "append":
				ms.allocs = true
				if t := info.TypeOf(call.Args[0]); t != nil {
					if sl, ok := types.Unalias(t).Underlying().(*types.Slice); ok {
						ms.heaps["E:"+typeKey(sl.Elem())] = true
					}
				}
			case "copy":
				if t := info.TypeOf(call.Args[0]); t != nil {
					if sl, ok := types.Unalias(t).Underlying().(*types.Slice); ok {
						ms.heaps["E:"+typeKey(sl.Elem())] = true
					}
				}
			case "delete", "clear":
				if t := info.TypeOf(call.Args[0]); t != nil {
					ms.heaps["MD:"+typeKey(t)] = true
					ms.heaps["MV:"+typeKey(t)] = true
				}
			case "close":
				ms.heaps["CC"] = true
				ms.emits = true
			case "make", "new":
				ms.allocs = true
				if t := info.TypeOf(call); t != nil {
					switch u := types.Unalias(t).Underlying().(type) {
					case *types.Slice:
						ms.markFresh("E:" + typeKey(u.Elem()))
					case *types.Map:
						ms.markFresh("MD:" + typeKey(t))
						ms.markFresh("MV:" + typeKey(t))
						ms.markFresh("MC:" + typeKey(t))
					case *types.Chan:
						ms.markFresh("CC")
						ms.markFresh("CP")
					case *types.Pointer:
						if s, named, _ := structOf(u.Elem()); s != nil && !opaqueNamed(named) {
							for i := 0; i < s.NumFields(); i++ {
								ms.markFresh(fieldKey(named, s.Field(i).Name()))
							}
						} else {
							ms.markFresh("P:" + typeKey(u.Elem()))
						}
					}
				}
			}
			return
		}
	}
	fn := calleeOf(info, call)
	if fn == nil {
		// call through a function value: any literal of the package with an identical signature, plus opaque events
		ms.opaque = true
		ms.fncall = true
		ms.allocs = true
		ft, _ := info.TypeOf(call.Fun).(*types.Signature)
		for _, fi := range w.Funcs {
			if fi.Lit == nil || fi.Pkg != pkg {
				continue
			}
			lt, _ := fi.Pkg.TypesInfo.TypeOf(fi.Lit).(*types.Signature)
			if ft != nil && lt != nil && types.Identical(ft, lt) {
				note(fi.Key)
			}
		}
		return
	}
	key := funcKeyOf(fn)
	if fn.Pkg() != nil {
		switch fn.Pkg().Path() {
		case "sort":
			// sort.Slice / SliceStable permute the elements of the slice they are given (hard-wired model)
			if (fn.Name() == "Slice" || fn.Name() == "SliceStable") && len(call.Args) > 0 {
				if t := info.TypeOf(call.Args[0]); t != nil {
					if sl, ok := types.Unalias(t).Underlying().(*types.Slice); ok {
						ms.heaps["E:"+typeKey(sl.Elem())] = true
					}
				}
			}
		case "sync":
			// lock state lives in the LK ghost heap (no events); wait groups and Once.Do callbacks are events
			switch fn.Name() {
			case "Lock", "Unlock", "RLock", "RUnlock", "TryLock", "TryRLock":
				ms.heaps["LK"] = true
			case "Do":
				ms.heaps["ONCE"] = true
				ms.emits = true
			default:
				ms.emits = true
			}
			return
		case "sync/atomic":
			ms.emits = false || ms.emits
			// atomic functions on &x.f: the field's heap; methods on atomic.* fields: the field's heap
			sig := fn.Type().(*types.Signature)
			var target ast.Expr
			if sig.Recv() != nil {
				if sel, ok := unparen(call.Fun).(*ast.SelectorExpr); ok {
					target = sel.X
				}
			} else if len(call.Args) > 0 {
				if u, ok := unparen(call.Args[0]).(*ast.UnaryExpr); ok && u.Op == token.AND {
					target = u.X
				}
			}
			if target != nil && !strings.HasPrefix(fn.Name(), "Load") {
				w.markStore(pkg, c, target, ms)
			}
			return
		}
	}
	sig := fn.Type().(*types.Signature)
	if sp, ok := w.Specs[key]; ok && (sp.Flags["countresult"] != "" || sp.Flags["countcalls"] != "") {
		ms.heaps["NRT"] = true
	}
	if sp, ok := w.Specs[key]; ok && sp.Flags["lockeffect"] != "" {
		// the callee leaves locks in another state than it found them: a loop around the call changes lock state
		ms.heaps["LK"] = true
	}
	if _, inRepo := w.Funcs[key]; !inRepo {
		if _, hasSpec := w.Specs[key]; !hasSpec {
			// external callee without contract: it may call back the methods of an argument passed as an interface
			// (sort.Sort(x), heap.Push(h, v), ...): the effects of those methods are its effects
			for _, a := range call.Args {
				at := info.TypeOf(a)
				if at == nil {
					continue
				}
				if _, isIf := types.Unalias(at).Underlying().(*types.Interface); isIf {
					continue
				}
				for _, fi := range w.Funcs {
					if fi.Obj == nil {
						continue
					}
					rs := fi.Obj.Type().(*types.Signature).Recv()
					if rs == nil {
						continue
					}
					rt := types.Unalias(rs.Type())
					if p, ok := rt.(*types.Pointer); ok {
						rt = types.Unalias(p.Elem())
					}
					at2 := types.Unalias(at)
					if p, ok := at2.(*types.Pointer); ok {
						at2 = types.Unalias(p.Elem())
					}
					if types.Identical(rt, at2) {
						note(fi.Key)
					}
				}
			}
		}
	}
	if r := sig.Recv(); r != nil {
		if _, isIface := types.Unalias(r.Type()).Underlying().(*types.Interface); isIface {
			if sp, ok := w.Specs[key]; ok {
				_ = sp
				note(key)
				return
			}
			// union over implementations in the loaded packages
			found := false
			for _, fi := range w.Funcs {
				if fi.Obj == nil || fi.Obj.Name() != fn.Name() {
					continue
				}
				rs := fi.Obj.Type().(*types.Signature).Recv()
				if rs == nil {
					continue
				}
				if types.Implements(rs.Type(), r.Type().Underlying().(*types.Interface)) {
					note(fi.Key)
					found = true
				}
			}
			if !found {
				ms.opaque = true // implementation outside the loaded packages: opaque events
			}
			return
		}
	}
	note(key)
}

// freshLocal: the identifier is a local pointer variable assigned exactly once, from an allocation:
// &T{...}, new(T), or a call of a function whose contract ensures fresh(result).
func (w *World) freshLocal(pkg *packages.Package, id *ast.Ident) bool {
	info := pkg.TypesInfo
	obj, ok := info.ObjectOf(id).(*types.Var)
	if !ok || isGlobal(obj) || obj.IsField() {
		return false
	}
	if w.freshLocals == nil {
		w.freshLocals = map[types.Object]int{}
	}
	if v, ok := w.freshLocals[obj]; ok {
		return v == 1
	}
	// find the enclosing file and scan assignments to obj
	var file *ast.File
	for _, f := range pkg.Syntax {
		if f.Pos() <= obj.Pos() && obj.Pos() <= f.End() {
			file = f
		}
	}
	res := 0
	if file != nil {
		n, fresh := 0, 0
		isAlloc := func(e ast.Expr) bool {
			switch x := unparen(e).(type) {
			case *ast.UnaryExpr:
				_, ok := unparen(x.X).(*ast.CompositeLit)
				return x.Op == token.AND && ok
			case *ast.CallExpr:
				if b, ok := unparen(x.Fun).(*ast.Ident); ok && b.Name == "new" {
					return true
				}
				if fn := calleeOf(info, x); fn != nil {
					if sp, ok := w.Specs[funcKeyOf(fn)]; ok {
						for _, en := range sp.Ensures {
							if strings.Contains(en.Text, "fresh(result)") {
								return true
							}
						}
					}
				}
			}
			return false
		}
		ast.Inspect(file, func(x ast.Node) bool {
			switch s := x.(type) {
			case *ast.AssignStmt:
				for i, l := range s.Lhs {
					if lid, ok := l.(*ast.Ident); ok && info.ObjectOf(lid) == obj {
						n++
						if len(s.Rhs) == len(s.Lhs) && isAlloc(s.Rhs[i]) {
							fresh++
						}
					}
				}
			case *ast.ValueSpec:
				for i, nm := range s.Names {
					if info.ObjectOf(nm) == obj {
						if i < len(s.Values) {
							n++
							if isAlloc(s.Values[i]) {
								fresh++
							}
						}
					}
				}
			case *ast.UnaryExpr:
				if s.Op == token.AND {
					if uid, ok := unparen(s.X).(*ast.Ident); ok && info.ObjectOf(uid) == obj {
						n += 2
					}
				}
			}
			return true
		})
		if n == 1 && fresh == 1 {
			res = 1
		}
	}
	if res == 0 {
		res = 2
	}
	w.freshLocals[obj] = res
	return res == 1
}
