package main

// Replay of solver models against the real code.
//
// A replay driver turns the model of a refuted obligation into a Go test that is compiled into the function's
// own package through `go test -overlay` (nothing is written to the repository) and fails iff the real code
// violates the clause (panics, or the observed behaviour contradicts it).

import (
	"encoding/json"
	"fmt"
	"os"
	"os/exec"
	"path/filepath"
	"regexp"
	"strconv"
	"strings"
	"time"
)

type replayDriver struct {
	// modelFree: the failing scenario does not depend on solver-chosen inputs (a fixed history fails), so the replay
	// can run even when the solver gave no model (timeout / unknown on a quantified goal)
	modelFree bool
	name      string
	match     func(ob *Oblig) bool
	// extra terms to read from the model (besides the function's inputs)
	terms func(ob *Oblig) []ModelVar
	// build returns the package directory (relative to the repo) and the test source
	build func(ob *Oblig, m map[string]string) (dir string, src string, ok bool)
}

var replayDrivers []replayDriver

func registerReplay(d replayDriver) { replayDrivers = append(replayDrivers, d) }

func modelFreeDriver(ob *Oblig) bool {
	d := driverFor(ob)
	return d != nil && d.modelFree
}

func driverFor(ob *Oblig) *replayDriver {
	for i := range replayDrivers {
		if replayDrivers[i].match(ob) {
			return &replayDrivers[i]
		}
	}
	return nil
}

// addReplayTerms extends the obligation's model request with the driver's terms.
func addReplayTerms(ob *Oblig) {
	if d := driverFor(ob); d != nil && d.terms != nil {
		ob.Inputs = append(append([]ModelVar(nil), ob.Inputs...), d.terms(ob)...)
	}
}

func replayModel(o options, w *World, ob *Oblig, model map[string]string) (bool, string) {
	d := driverFor(ob)
	if d == nil {
		return false, ""
	}
	dir, src, ok := d.build(ob, model)
	if !ok {
		return false, "replay driver " + d.name + ": model not replayable"
	}
	failed, out := runReplayTest(o, dir, src)
	return failed, "driver " + d.name + "\n--- test source\n" + src + "\n--- go test output\n" + out
}

// runReplayTest compiles the test into the package with -overlay and reports whether it FAILED.
func runReplayTest(o options, dir, src string) (bool, string) {
	tmp, err := os.MkdirTemp("", "gocv-replay-")
	if err != nil {
		return false, err.Error()
	}
	defer os.RemoveAll(tmp)
	testFile := filepath.Join(tmp, "gocv_replay_test.go")
	if err := os.WriteFile(testFile, []byte(src), 0o644); err != nil {
		return false, err.Error()
	}
	pkgDir := filepath.Join(o.repo, dir)
	ov := map[string]any{"Replace": map[string]string{filepath.Join(pkgDir, "gocv_replay_test.go"): testFile}}
	b, _ := json.Marshal(ov)
	ovFile := filepath.Join(tmp, "overlay.json")
	os.WriteFile(ovFile, b, 0o644)
	cmd := exec.Command("go", "test", "-overlay", ovFile, "-vet=off", "-count=1", "-timeout", "60s", "-run", "^TestGocvReplay$", ".")
	cmd.Dir = pkgDir
	env := []string{}
	for _, e := range os.Environ() {
		if strings.HasPrefix(e, "GOFLAGS=") || strings.HasPrefix(e, "GOWORK=") {
			continue
		}
		env = append(env, e)
	}
	// scratch copies have no go.work: fall back to module mode with the repository's own go.sum
	if _, err := os.Stat(filepath.Join(o.repo, "go.work")); err != nil {
		env = append(env, "GOFLAGS=-mod=mod", "GOWORK=off")
	}
	env = append(env, "GOPROXY=off", "GOSUMDB=off", "GOTOOLCHAIN=local", "GOMAXPROCS=4")
	cmd.Env = env
	done := make(chan struct{})
	var out []byte
	go func() { out, err = cmd.CombinedOutput(); close(done) }()
	select {
	case <-done:
	case <-time.After(120 * time.Second):
		cmd.Process.Kill()
		return false, "replay timed out"
	}
	s := string(out)
	if strings.Contains(s, "[build failed]") || strings.Contains(s, "[setup failed]") || strings.Contains(s, "no test files") {
		return false, "replay test did not build:\n" + truncate(s, 3000)
	}
	failed := err != nil && (strings.Contains(s, "--- FAIL") || strings.Contains(s, "panic:") || strings.Contains(s, "FAIL"))
	return failed, truncate(s, 4000)
}

// ---------------------------------------------------------------------------
// helpers for reading model values

var negInt = regexp.MustCompile(`^\(-\s*(\d+)\)$`)

func modelInt(s string) (int64, bool) {
	s = strings.TrimSpace(s)
	if m := negInt.FindStringSubmatch(s); m != nil {
		n, err := strconv.ParseInt(m[1], 10, 64)
		return -n, err == nil
	}
	n, err := strconv.ParseInt(s, 10, 64)
	return n, err == nil
}

// modelStr maps a Str-sorted model value back to a literal of the context when it is one
// (the literals' own model values are requested as "lit:<text>").
func modelStr(c *Ctx, m map[string]string, s string) (string, bool) {
	for lit, name := range c.strLits {
		if name == s || m["lit:"+lit] == s {
			return lit, true
		}
	}
	return "", false
}

func strLitTerms(c *Ctx) []ModelVar {
	var out []ModelVar
	for _, lit := range sortedKeys(c.strLits) {
		out = append(out, ModelVar{Name: "lit:" + lit, Term: c.strLits[lit]})
	}
	return out
}

func ptrSample(k int64) (string, bool) {
	s, ok := kindSamples[k]
	if !ok || k == 0 {
		return "", false
	}
	return "func() any { x := " + s + "; return &x }()", true
}

func (ob *Oblig) inputTerm(name string) string {
	for _, in := range ob.ctx.inputs {
		if in.Name == name {
			return in.Term
		}
	}
	return ""
}

// ---------------------------------------------------------------------------
// driver: schema.(*Value).ValueFrom / schema.NewValue — panic obligations (C16)

var kindSamples = map[int64]string{
	0: "nil", 1: "true", 2: "int(-5)", 3: "int8(-5)", 4: "int16(-5)", 5: "int32(-5)", 6: "int64(-5)",
	7: "uint(5)", 8: "uint8(5)", 9: "uint16(5)", 10: "uint32(5)", 11: "uint64(5)", 12: "uintptr(5)",
	13: "float32(1.5)", 14: "float64(1.5)", 15: "complex64(1)", 16: "complex128(1)",
	17: "[2]int{1, 2}", 18: "make(chan int)", 19: "func() {}", 21: "map[string]any{\"a\": 1}",
	22: "&struct{ A int }{1}", 23: "[]any{1, \"a\"}", 24: "replayNamedString(\"[1]\")", 25: "struct{ A int }{1}", 26: "unsafe.Pointer(nil)",
}

func init() {
	registerReplay(replayDriver{
		name: "schema.Value.ValueFrom",
		match: func(ob *Oblig) bool {
			return ob.Class == "panic" && (strings.HasPrefix(ob.Func, "schema.(*Value).ValueFrom") || strings.HasPrefix(ob.Func, "schema.NewValue"))
		},
		terms: func(ob *Oblig) []ModelVar {
			c := ob.ctx
			var out []ModelVar
			if v := ob.inputTerm("value"); v != "" && c.declared["sf_kindOfDyn"] {
				out = append(out, ModelVar{Name: "kind(value)", Term: "(sf_kindOfDyn (i_tag " + v + "))"}, ModelVar{Name: "tag(value)", Term: "(i_tag " + v + ")"})
			}
			if v := ob.inputTerm("value"); v != "" && c.declared["pf_reflect_Value.Elem_0"] && c.declared["pf_reflect_ValueOf_0"] {
				out = append(out, ModelVar{Name: "kind(*value)", Term: "(sf_vkind (pf_reflect_Value.Elem_0 (pf_reflect_ValueOf_0 " + v + ")))"})
			}
			if iv := ob.inputTerm("iv"); iv != "" {
				if _, ok := c.heapSorts()["F:schema.Value.ItemType"]; ok {
					out = append(out, ModelVar{Name: "iv.ItemType", Term: "(select H_F_schema.Value.ItemType_e0 " + iv + ")"})
				}
			}
			return append(out, strLitTerms(c)...)
		},
		build: func(ob *Oblig, m map[string]string) (string, string, bool) {
			c := ob.ctx
			sample := "nil"
			if tg, ok := modelInt(m["tag(value)"]); ok && tg != 0 {
				k, ok := modelInt(m["kind(value)"])
				if !ok {
					return "", "", false
				}
				s, ok := kindSamples[k]
				if !ok {
					return "", "", false
				}
				sample = s
				if k == 22 {
					if ek, ok := modelInt(m["kind(*value)"]); ok {
						if ps, ok := ptrSample(ek); ok {
							sample = ps
						}
					}
				}
				// the model's dynamic type may be exactly `string` (tag of the basic type)
				if k == 24 && tg == int64(c.tags["string"]) {
					sample = `"[1]"`
				}
			}
			itemType := ""
			if s, ok := m["iv.ItemType"]; ok {
				if lit, ok := modelStr(c, m, s); ok {
					itemType = lit
				} else {
					itemType = "unlisted-type"
				}
			}
			call := fmt.Sprintf("v := &Value{ItemType: ItemType(%q)}\n\tv.ValueFrom(arg)", itemType)
			if strings.HasPrefix(ob.Func, "schema.NewValue") {
				call = "_ = NewValue(arg)"
			}
			src := fmt.Sprintf(`package schema

import (
	"testing"
	"unsafe"
)

type replayNamedString string

var _ = unsafe.Pointer(nil)

// generated by gocv from the model of obligation %s
func TestGocvReplay(t *testing.T) {
	var arg any = %s
	defer func() {
		if r := recover(); r != nil {
			t.Fatalf("real code panicked: %%v", r)
		}
	}()
	%s
}
`, ob.Name, sample, call)
			return "schema", src, true
		},
	})
}

// ---------------------------------------------------------------------------
// driver: (*ProcessSet).WaitUntilComplete — close of the completion channel (C18).  The model has no input to speak
// of: the obligation fails for any process set, so the replay waits twice on an empty one.

func init() {
	registerReplay(replayDriver{
		modelFree: true,
		name:      "bpmn.ProcessSet.WaitUntilComplete twice",
		match: func(ob *Oblig) bool {
			return ob.Class == "chan-close-once" && strings.HasPrefix(ob.Func, "bpmn.(*ProcessSet).WaitUntilComplete")
		},
		build: func(ob *Oblig, m map[string]string) (string, string, bool) {
			src := fmt.Sprintf(`package bpmn

import (
	"context"
	"testing"
	"time"

	"github.com/olive-io/bpmn/schema"
)

// generated by gocv for obligation %s
func TestGocvReplay(t *testing.T) {
	defs := &schema.Definitions{}
	ps, err := NewProcessSet(nil, nil, defs)
	if err != nil {
		t.Fatal(err)
	}
	ctx, cancel := context.WithTimeout(context.Background(), 2*time.Second)
	defer cancel()
	if err := ps.StartAll(ctx); err != nil {
		t.Fatal(err)
	}
	// a second wait must not crash the program (the helper goroutine's panic is not recoverable here)
	ps.WaitUntilComplete(ctx)
	ps.WaitUntilComplete(ctx)
	time.Sleep(200 * time.Millisecond)
}
`, ob.Name)
			return ".", src, true
		},
	})
}

// ---------------------------------------------------------------------------
// driver: (*genericTask).run — a cancel message while a request is pending (C10).  The failing step is "cancel
// message received, loop continues": the replay puts a real generic task into that state (one request pending) and
// asks it to cancel.

func init() {
	registerReplay(replayDriver{
		modelFree: true,
		name:      "bpmn.genericTask cancel with a pending request",
		match: func(ob *Oblig) bool {
			return strings.HasPrefix(ob.Func, "bpmn.(*genericTask).run") && strings.Contains(ob.Name, "interrupt-cancels-a-pending-request")
		},
		build: func(ob *Oblig, m map[string]string) (string, string, bool) {
			src := fmt.Sprintf(`package bpmn

import (
	"context"
	"testing"
	"time"

	"github.com/olive-io/bpmn/schema"
	"github.com/olive-io/bpmn/v2/pkg/data"
	"github.com/olive-io/bpmn/v2/pkg/tracing"
)

// generated by gocv for obligation %s
func TestGocvReplay(t *testing.T) {
	ctx, stop := context.WithCancel(context.Background())
	defer stop()
	tracer := tracing.NewTracer(ctx)
	traces := tracer.SubscribeChannel(make(chan tracing.ITrace, 16))
	element := &schema.Task{}
	act, err := newTask(element, TaskActivity)(&wiring{tracer: tracer, locator: data.NewFlowDataLocator()})
	if err != nil {
		t.Fatal(err)
	}
	task := act.(*genericTask)
	task.NextAction(ctx, nil)
	// wait until the request is pending: its TaskTrace has been sent and nobody answers it
	deadline := time.After(2 * time.Second)
	for pending := false; !pending; {
		select {
		case tr := <-traces:
			_, pending = tracing.Unwrap(tr).(TaskTrace)
		case <-deadline:
			t.Fatal("no task request observed")
		}
	}
	time.Sleep(20 * time.Millisecond)
	answer := task.Cancel()
	select {
	case ok := <-answer:
		if !ok {
			t.Fatalf("an activity with a pending request refused to be cancelled: an interrupting boundary event cannot stop its normal flow")
		}
	case <-time.After(2 * time.Second):
		t.Fatal("no answer to the cancel request")
	}
}
`, ob.Name)
			return ".", src, true
		},
	})
}

// ---------------------------------------------------------------------------
// driver: (*catchEvent).ConsumeEvent — delivery to a catch event whose node has not been reached (C11): nobody reads
// its inbox yet, so delivery blocks once the inbox (2*incoming+1 slots) is full.

func init() {
	registerReplay(replayDriver{
		modelFree: true,
		name:      "bpmn.catchEvent.ConsumeEvent on a node not yet reached",
		match: func(ob *Oblig) bool {
			return ob.Class == "blocking" && strings.HasPrefix(ob.Func, "bpmn.(*catchEvent).ConsumeEvent")
		},
		build: func(ob *Oblig, m map[string]string) (string, string, bool) {
			src := fmt.Sprintf(`package bpmn

import (
	"testing"
	"time"

	"github.com/olive-io/bpmn/schema"
	"github.com/olive-io/bpmn/v2/pkg/event"
)

type gocvReplaySource struct{}

func (gocvReplaySource) RegisterEventConsumer(event.IConsumer) error { return nil }

// generated by gocv for obligation %s
func TestGocvReplay(t *testing.T) {
	evt, err := newCatchEvent(&wiring{eventEgress: gocvReplaySource{}}, &schema.CatchEvent{})
	if err != nil {
		t.Fatal(err)
	}
	// the node has not been reached by any token: its goroutine is not running
	for i := 1; i <= 4; i++ {
		done := make(chan struct{})
		go func() {
			evt.ConsumeEvent(event.NewSignalEvent("s"))
			close(done)
		}()
		select {
		case <-done:
		case <-time.After(time.Second):
			t.Fatalf("delivery number %%d to a catch event that is not listening did not return within a second", i)
		}
	}
}
`, ob.Name)
			return ".", src, true
		},
	})
}

// ---------------------------------------------------------------------------
// driver: (*Process).WaitUntilComplete — a waiter whose context has expired strands the helper goroutine while it
// holds the completion lock (C02): every later wait then reports "not complete".

func init() {
	registerReplay(replayDriver{
		modelFree: true,
		name:      "bpmn.Process.WaitUntilComplete after an expired wait",
		match: func(ob *Oblig) bool {
			return (ob.Class == "blocking" || ob.Class == "closure-inv") && strings.HasPrefix(ob.Func, "bpmn.(*Process).WaitUntilComplete")
		},
		build: func(ob *Oblig, m map[string]string) (string, string, bool) {
			src := fmt.Sprintf(`package bpmn

import (
	"context"
	"encoding/xml"
	"os"
	"testing"
	"time"

	"github.com/olive-io/bpmn/schema"
)

// generated by gocv for obligation %s
func TestGocvReplay(t *testing.T) {
	src, err := os.ReadFile("testdata/start.bpmn")
	if err != nil {
		t.Fatal(err)
	}
	var defs schema.Definitions
	if err := xml.Unmarshal(src, &defs); err != nil {
		t.Fatal(err)
	}
	proc, err := NewEngine().NewProcess(&defs)
	if err != nil {
		t.Fatal(err)
	}
	ctx := context.Background()
	if err := proc.StartAll(ctx); err != nil {
		t.Fatal(err)
	}
	live, stop := context.WithTimeout(ctx, 5*time.Second)
	defer stop()
	if !proc.WaitUntilComplete(live) {
		t.Fatal("start -> end did not complete")
	}
	expired, cancel := context.WithCancel(ctx)
	cancel()
	for i := 0; i < 50; i++ {
		proc.WaitUntilComplete(expired) // may return either answer: both alternatives are ready
		again, stop := context.WithTimeout(ctx, time.Second)
		ok := proc.WaitUntilComplete(again)
		stop()
		if !ok {
			t.Fatalf("after %%d waits with an expired context, a completed instance is reported as not complete", i+1)
		}
	}
}
`, ob.Name)
			return ".", src, true
		},
	})
}

// ---------------------------------------------------------------------------
// driver: (*Process).StartAll — a process with two start events (C02): the second StartWith needs the completion
// lock that the first one's monitor keeps until the instance completes.

func init() {
	registerReplay(replayDriver{
		modelFree: true,
		name:      "bpmn.Process.StartAll with two start events",
		match: func(ob *Oblig) bool {
			return (strings.HasPrefix(ob.Func, "bpmn.(*Process).StartAll") || strings.HasPrefix(ob.Func, "bpmn.(*Process).StartWith")) &&
				(strings.Contains(ob.Name, "completion-lock") || strings.Contains(ob.Name, "monitor"))
		},
		build: func(ob *Oblig, m map[string]string) (string, string, bool) {
			src := fmt.Sprintf(`package bpmn

import (
	"context"
	"encoding/xml"
	"testing"
	"time"

	"github.com/olive-io/bpmn/schema"
)

const gocvTwoStarts = %s

// generated by gocv for obligation %s
func TestGocvReplay(t *testing.T) {
	var defs schema.Definitions
	if err := xml.Unmarshal([]byte(gocvTwoStarts), &defs); err != nil {
		t.Fatal(err)
	}
	proc, err := NewEngine().NewProcess(&defs)
	if err != nil {
		t.Fatal(err)
	}
	ctx, cancel := context.WithTimeout(context.Background(), 5*time.Second)
	defer cancel()
	started := make(chan error, 1)
	go func() { started <- proc.StartAll(ctx) }()
	select {
	case err := <-started:
		if err != nil {
			t.Fatal(err)
		}
	case <-time.After(2 * time.Second):
		t.Fatal("StartAll of a process with two start events did not return within two seconds")
	}
	if !proc.WaitUntilComplete(ctx) {
		t.Fatal("the instance with two start events did not complete")
	}
}
`, "`"+twoStartsXML+"`", ob.Name)
			return ".", src, true
		},
	})
}

const twoStartsXML = `<?xml version="1.0" encoding="UTF-8"?>
<bpmn:definitions xmlns:bpmn="http://www.omg.org/spec/BPMN/20100524/MODEL" id="Definitions_two" targetNamespace="http://bpmn.io/schema/bpmn">
  <bpmn:process id="Process_two" isExecutable="true">
    <bpmn:startEvent id="s1"><bpmn:outgoing>f1</bpmn:outgoing></bpmn:startEvent>
    <bpmn:startEvent id="s2"><bpmn:outgoing>f2</bpmn:outgoing></bpmn:startEvent>
    <bpmn:endEvent id="e1"><bpmn:incoming>f1</bpmn:incoming></bpmn:endEvent>
    <bpmn:endEvent id="e2"><bpmn:incoming>f2</bpmn:incoming></bpmn:endEvent>
    <bpmn:sequenceFlow id="f1" sourceRef="s1" targetRef="e1" />
    <bpmn:sequenceFlow id="f2" sourceRef="s2" targetRef="e2" />
  </bpmn:process>
</bpmn:definitions>`

// ---------------------------------------------------------------------------
// driver: (*subProcess).NextAction — the inner completion monitor listens on the wrong tracer (C12): the parent's
// token never continues past an embedded sub-process, the enclosing instance never completes.

func init() {
	registerReplay(replayDriver{
		modelFree: true,
		name:      "bpmn embedded sub-process: the enclosing instance completes",
		match: func(ob *Oblig) bool {
			return strings.HasPrefix(ob.Func, "bpmn.(*subProcess).NextAction") && strings.Contains(ob.Name, "inner-completion-is-watched")
		},
		build: func(ob *Oblig, m map[string]string) (string, string, bool) {
			src := fmt.Sprintf(`package bpmn

import (
	"context"
	"encoding/xml"
	"os"
	"testing"
	"time"

	"github.com/olive-io/bpmn/schema"
	"github.com/olive-io/bpmn/v2/pkg/tracing"
)

// generated by gocv for obligation %s
func TestGocvReplay(t *testing.T) {
	src, err := os.ReadFile("testdata/subprocess.bpmn")
	if err != nil {
		t.Fatal(err)
	}
	var defs schema.Definitions
	if err := xml.Unmarshal(src, &defs); err != nil {
		t.Fatal(err)
	}
	proc, err := NewEngine().NewProcess(&defs)
	if err != nil {
		t.Fatal(err)
	}
	ctx, cancel := context.WithTimeout(context.Background(), 4*time.Second)
	defer cancel()
	traces := proc.Tracer().SubscribeChannel(make(chan tracing.ITrace, 64))
	if err := proc.StartAll(ctx); err != nil {
		t.Fatal(err)
	}
	go func() {
		for tr := range traces {
			if tt, ok := tracing.Unwrap(tr).(TaskTrace); ok {
				tt.Do()
			}
		}
	}()
	if !proc.WaitUntilComplete(ctx) {
		t.Fatal("the instance containing an embedded sub-process did not complete within four seconds: the parent's token never continued past the sub-process")
	}
}
`, ob.Name)
			return ".", src, true
		},
	})
}

// ---------------------------------------------------------------------------
// driver: (*subProcess).NextAction — the same embedded sub-process entered a second time (C12): only the first entry
// starts an inner completion monitor.

func init() {
	registerReplay(replayDriver{
		modelFree: true,
		name:      "bpmn embedded sub-process entered twice in sequence",
		match: func(ob *Oblig) bool {
			return strings.HasPrefix(ob.Func, "bpmn.(*subProcess).NextAction") && strings.Contains(ob.Name, "each-entry-gets-its-own")
		},
		build: func(ob *Oblig, m map[string]string) (string, string, bool) {
			return ".", "// generated by gocv for obligation " + ob.Name + "\n" + subprocessTwiceTest, true
		},
	})
}

const subprocessTwiceTest = `package bpmn

import (
	"context"
	"encoding/xml"
	"sync/atomic"
	"testing"
	"time"

	"github.com/olive-io/bpmn/schema"
	"github.com/olive-io/bpmn/v2/pkg/tracing"
)

const reentryXML = ` + "`" + `<?xml version="1.0" encoding="UTF-8"?>
<bpmn:definitions xmlns:bpmn="http://www.omg.org/spec/BPMN/20100524/MODEL" id="D" targetNamespace="http://bpmn.io/schema/bpmn">
  <bpmn:process id="P" isExecutable="true">
    <bpmn:startEvent id="s"><bpmn:outgoing>f0</bpmn:outgoing></bpmn:startEvent>
    <bpmn:parallelGateway id="fork"><bpmn:incoming>f0</bpmn:incoming><bpmn:outgoing>fa</bpmn:outgoing><bpmn:outgoing>fb</bpmn:outgoing></bpmn:parallelGateway>
    <bpmn:task id="a"><bpmn:incoming>fa</bpmn:incoming><bpmn:outgoing>ma</bpmn:outgoing></bpmn:task>
    <bpmn:task id="b"><bpmn:incoming>fb</bpmn:incoming><bpmn:outgoing>mb</bpmn:outgoing></bpmn:task>
    <bpmn:exclusiveGateway id="merge"><bpmn:incoming>ma</bpmn:incoming><bpmn:incoming>mb</bpmn:incoming><bpmn:outgoing>f1</bpmn:outgoing></bpmn:exclusiveGateway>
    <bpmn:subProcess id="sub"><bpmn:incoming>f1</bpmn:incoming><bpmn:outgoing>f2</bpmn:outgoing>
      <bpmn:startEvent id="is"><bpmn:outgoing>g0</bpmn:outgoing></bpmn:startEvent>
      <bpmn:task id="inner"><bpmn:incoming>g0</bpmn:incoming><bpmn:outgoing>g1</bpmn:outgoing></bpmn:task>
      <bpmn:endEvent id="ie"><bpmn:incoming>g1</bpmn:incoming></bpmn:endEvent>
      <bpmn:sequenceFlow id="g0" sourceRef="is" targetRef="inner" />
      <bpmn:sequenceFlow id="g1" sourceRef="inner" targetRef="ie" />
    </bpmn:subProcess>
    <bpmn:endEvent id="e"><bpmn:incoming>f2</bpmn:incoming></bpmn:endEvent>
    <bpmn:sequenceFlow id="f0" sourceRef="s" targetRef="fork" />
    <bpmn:sequenceFlow id="fa" sourceRef="fork" targetRef="a" />
    <bpmn:sequenceFlow id="fb" sourceRef="fork" targetRef="b" />
    <bpmn:sequenceFlow id="ma" sourceRef="a" targetRef="merge" />
    <bpmn:sequenceFlow id="mb" sourceRef="b" targetRef="merge" />
    <bpmn:sequenceFlow id="f1" sourceRef="merge" targetRef="sub" />
    <bpmn:sequenceFlow id="f2" sourceRef="sub" targetRef="e" />
  </bpmn:process>
</bpmn:definitions>` + "`" + `

func TestGocvReplay(t *testing.T) {
	var defs schema.Definitions
	if err := xml.Unmarshal([]byte(reentryXML), &defs); err != nil {
		t.Fatal(err)
	}
	proc, err := NewEngine().NewProcess(&defs)
	if err != nil {
		t.Fatal(err)
	}
	ctx, cancel := context.WithTimeout(context.Background(), 4*time.Second)
	defer cancel()
	traces := proc.Tracer().SubscribeChannel(make(chan tracing.ITrace, 64))
	if err := proc.StartAll(ctx); err != nil {
		t.Fatal(err)
	}
	var inner, ends atomic.Int32
	hold := make(chan TaskTrace, 4)
	go func() {
		for tr := range traces {
			switch tt := tracing.Unwrap(tr).(type) {
			case TaskTrace:
				id, _ := tt.GetActivity().Element().Id()
				if *id == "inner" {
					inner.Add(1)
				}
				if *id == "b" {
					hold <- tt // answered later: the second token enters the sub-process after the first has left
					continue
				}
				tt.Do()
			case VisitTrace:
				if id, ok := tt.Node.Id(); ok && *id == "e" {
					ends.Add(1)
					select {
					case h := <-hold:
						h.Do()
					default:
					}
				}
			}
		}
	}()
	ok := proc.WaitUntilComplete(ctx)
	t.Logf("complete=%v inner requests=%d end visits=%d", ok, inner.Load(), ends.Load())
	if !ok || inner.Load() != 2 || ends.Load() != 2 {
		t.Fatalf("sub-process entered twice in sequence: complete=%v inner requests=%d end visits=%d (want true, 2, 2)", ok, inner.Load(), ends.Load())
	}
}
`

// ---------------------------------------------------------------------------
// driver: (*eventBasedGateway).run$2 — the winner's transformer sends `true` to every loser on an unbuffered channel
// (C06): a loser that has already taken its own action (its event arrived at the same time) no longer listens, the
// winner blocks for ever and the instance never completes.

func init() {
	registerReplay(replayDriver{
		modelFree: true,
		name:      "bpmn event-based gateway: both events delivered at the same time",
		match: func(ob *Oblig) bool {
			return ob.Class == "blocking" && strings.HasPrefix(ob.Func, "bpmn.(*eventBasedGateway).run$2")
		},
		build: func(ob *Oblig, m map[string]string) (string, string, bool) {
			return ".", "// generated by gocv for obligation " + ob.Name + "\n" + ebgConcurrentTest, true
		},
	})
}

const ebgConcurrentTest = `package bpmn

import (
	"context"
	"encoding/xml"
	"os"
	"sync"
	"testing"
	"time"

	"github.com/olive-io/bpmn/schema"
	"github.com/olive-io/bpmn/v2/pkg/event"
	"github.com/olive-io/bpmn/v2/pkg/tracing"
)

func TestGocvReplay(t *testing.T) {
	src, err := os.ReadFile("testdata/event_based_gateway.bpmn")
	if err != nil {
		t.Fatal(err)
	}
	incomplete := 0
	const runs = 12
	for run := 0; run < runs; run++ {
		var defs schema.Definitions
		if err := xml.Unmarshal(src, &defs); err != nil {
			t.Fatal(err)
		}
		proc, err := NewEngine().NewProcess(&defs)
		if err != nil {
			t.Fatal(err)
		}
		ctx, cancel := context.WithTimeout(context.Background(), time.Second)
		traces := proc.Tracer().SubscribeChannel(make(chan tracing.ITrace, 128))
		if err := proc.StartAll(ctx); err != nil {
			t.Fatal(err)
		}
		listening := make(chan struct{}, 4)
		go func() {
			for tr := range traces {
				switch tt := tracing.Unwrap(tr).(type) {
				case ActiveListeningTrace:
					listening <- struct{}{}
				case TaskTrace:
					tt.Do()
				}
			}
		}()
		for i := 0; i < 2; i++ {
			select {
			case <-listening:
			case <-ctx.Done():
				t.Fatal("the alternatives never started listening")
			}
		}
		// both competing events at the same time, from different goroutines
		var wg sync.WaitGroup
		for _, ev := range []event.IEvent{event.NewSignalEvent("Sig1"), event.NewMessageEvent("Msg1", nil)} {
			wg.Add(1)
			go func(ev event.IEvent) { defer wg.Done(); proc.ConsumeEvent(ev) }(ev)
		}
		wg.Wait()
		if !proc.WaitUntilComplete(ctx) {
			incomplete++
		}
		cancel()
	}
	if incomplete > 0 {
		t.Fatalf("%d of %d instances did not complete after both alternatives' events were delivered at the same time", incomplete, runs)
	}
}
`

// ---------------------------------------------------------------------------
// driver: (*subProcess).run — a cancel message while the inner flow is running (C10, the twin of the generic task's
// refusal): an interrupting boundary event on a running sub-process; the inner task is answered only after the
// exception flow has reached its end event, and the normal flow continues all the same.

func init() {
	registerReplay(replayDriver{
		modelFree: true,
		name:      "bpmn sub-process with an interrupting boundary event",
		match: func(ob *Oblig) bool {
			return strings.HasPrefix(ob.Func, "bpmn.(*subProcess).run") && strings.Contains(ob.Name, "interrupt-cancels-a-running-sub-process")
		},
		build: func(ob *Oblig, m map[string]string) (string, string, bool) {
			return ".", "// generated by gocv for obligation " + ob.Name + "\n" + subprocessInterruptTest, true
		},
	})
}

const subprocessInterruptTest = `package bpmn

import (
	"context"
	"encoding/xml"
	"testing"
	"time"

	"github.com/olive-io/bpmn/schema"
	"github.com/olive-io/bpmn/v2/pkg/event"
	"github.com/olive-io/bpmn/v2/pkg/tracing"
)

const spCancelXML = ` + "`" + `<?xml version="1.0" encoding="UTF-8"?>
<bpmn:definitions xmlns:bpmn="http://www.omg.org/spec/BPMN/20100524/MODEL" id="D" targetNamespace="http://bpmn.io/schema/bpmn">
  <bpmn:process id="P" isExecutable="true">
    <bpmn:startEvent id="s"><bpmn:outgoing>f0</bpmn:outgoing></bpmn:startEvent>
    <bpmn:subProcess id="sub"><bpmn:incoming>f0</bpmn:incoming><bpmn:outgoing>f1</bpmn:outgoing>
      <bpmn:startEvent id="is"><bpmn:outgoing>g0</bpmn:outgoing></bpmn:startEvent>
      <bpmn:task id="inner"><bpmn:incoming>g0</bpmn:incoming><bpmn:outgoing>g1</bpmn:outgoing></bpmn:task>
      <bpmn:endEvent id="ie"><bpmn:incoming>g1</bpmn:incoming></bpmn:endEvent>
      <bpmn:sequenceFlow id="g0" sourceRef="is" targetRef="inner" />
      <bpmn:sequenceFlow id="g1" sourceRef="inner" targetRef="ie" />
    </bpmn:subProcess>
    <bpmn:endEvent id="e"><bpmn:incoming>f1</bpmn:incoming></bpmn:endEvent>
    <bpmn:boundaryEvent id="b" cancelActivity="true" attachedToRef="sub">
      <bpmn:outgoing>f2</bpmn:outgoing>
      <bpmn:signalEventDefinition id="sd" signalRef="sig1" />
    </bpmn:boundaryEvent>
    <bpmn:endEvent id="e2"><bpmn:incoming>f2</bpmn:incoming></bpmn:endEvent>
    <bpmn:sequenceFlow id="f0" sourceRef="s" targetRef="sub" />
    <bpmn:sequenceFlow id="f1" sourceRef="sub" targetRef="e" />
    <bpmn:sequenceFlow id="f2" sourceRef="b" targetRef="e2" />
  </bpmn:process>
  <bpmn:signal id="sig1" name="sig1" />
</bpmn:definitions>` + "`" + `

func TestGocvReplay(t *testing.T) {
	var defs schema.Definitions
	if err := xml.Unmarshal([]byte(spCancelXML), &defs); err != nil {
		t.Fatal(err)
	}
	proc, err := NewEngine().NewProcess(&defs)
	if err != nil {
		t.Fatal(err)
	}
	ctx, cancel := context.WithTimeout(context.Background(), 5*time.Second)
	defer cancel()
	traces := proc.Tracer().SubscribeChannel(make(chan tracing.ITrace, 128))
	if err := proc.StartAll(ctx); err != nil {
		t.Fatal(err)
	}
	var pending TaskTrace
	listening := false
	visited := map[string]int{}
	fired := false
	deadline := time.After(3 * time.Second)
	for {
		select {
		case tr := <-traces:
			switch tt := tracing.Unwrap(tr).(type) {
			case TaskTrace:
				id, _ := tt.GetActivity().Element().Id()
				t.Logf("task %s", *id)
				if *id == "inner" {
					pending = tt
				}
			case ActiveListeningTrace:
				if id, ok := tt.Node.Id(); ok && *id == "b" {
					listening = true
				}
			case VisitTrace:
				if id, ok := tt.Node.Id(); ok {
					visited[*id]++
					t.Logf("visit %s", *id)
					if *id == "e2" && pending != nil {
						// the interrupting path is through: now the inner task is answered
						time.Sleep(50 * time.Millisecond)
						pending.Do()
					}
				}
			case CancellationFlowNodeTrace:
				id, _ := tt.Node.Id()
				t.Logf("cancellation %s", *id)
			case ErrorTrace:
				t.Logf("error %v", tt.Error)
			}
			if pending != nil && listening && !fired {
				fired = true
				time.Sleep(50 * time.Millisecond)
				if _, err := proc.ConsumeEvent(event.NewSignalEvent("sig1")); err != nil {
					t.Fatal(err)
				}
			}
		case <-deadline:
			t.Logf("visited=%v", visited)
			if visited["e2"] != 1 {
				t.Fatalf("the interrupting boundary event's flow did not reach e2")
			}
			if visited["e"] != 0 {
				t.Fatalf("an interrupting boundary event on a running sub-process did not stop its normal flow: e visited %d times", visited["e"])
			}
			return
		}
	}
}
`

// ---------------------------------------------------------------------------
// driver: schema.(*Value).ValueFrom — declared-type value clauses (C16): the model names the dynamic type and the
// number; the replay stores that number in a value declared integer / float and reads it back (the property's own
// oracle: a value survives storage unchanged).

func init() {
	intKinds := []string{"int", "int8", "int16", "int32", "int64", "uint", "uint8", "uint16", "uint32", "uint64"}
	registerReplay(replayDriver{
		name: "schema.Value.ValueFrom with a declared numeric type",
		match: func(ob *Oblig) bool {
			return ob.Class == "post" && strings.HasPrefix(ob.Func, "schema.(*Value).ValueFrom") &&
				(strings.Contains(ob.Name, "declared-integer-keeps-every") || strings.Contains(ob.Name, "declared-float-value"))
		},
		terms: func(ob *Oblig) []ModelVar {
			var out []ModelVar
			if v := ob.inputTerm("value"); v != "" {
				out = append(out, ModelVar{Name: "tag(value)", Term: "(i_tag " + v + ")"}, ModelVar{Name: "ival(value)", Term: "(i_val " + v + ")"})
			}
			return out
		},
		build: func(ob *Oblig, m map[string]string) (string, string, bool) {
			c := ob.ctx
			tg, ok := modelInt(m["tag(value)"])
			if !ok {
				return "", "", false
			}
			typ := ""
			for _, k := range append(append([]string(nil), intKinds...), "float32", "float64") {
				if id, ok := c.tags[k]; ok && int64(id) == tg {
					typ = k
				}
			}
			if typ == "" {
				return "", "", false
			}
			declared, sample, want := "integer", "5", "int64(5)"
			if strings.HasPrefix(typ, "float") {
				declared, sample, want = "float", "1.5", "float64(1.5)"
			} else if n, ok := modelInt(m["ival(value)"]); ok && n >= 0 && n <= 100 {
				sample, want = fmt.Sprint(n), fmt.Sprintf("int64(%d)", n)
			}
			src := fmt.Sprintf(`package schema

import "testing"

// generated by gocv from the model of obligation %s
func TestGocvReplay(t *testing.T) {
	var arg any = %s(%s)
	v := &Value{ItemType: ItemType(%q)}
	v.ValueFrom(arg)
	if got := v.ValueFor(); got != any(%s) {
		t.Fatalf("a %s stored in a value declared %s reads back as %%#v (text %%q), want %%#v", got, v.ItemValue, any(%s))
	}
}
`, ob.Name, typ, sample, declared, want, typ, declared, want)
			return "schema", src, true
		},
	})
}

// ---------------------------------------------------------------------------
// driver: distributeFlows (C03/C05) — the model gives the number of parked tokens and of outgoing flows; the replay
// runs the real function on that many and checks the property's own statement: every parked token is answered exactly
// once, every outgoing flow is handed out exactly once, pre-selected, and the surplus tokens are consumed.

func init() {
	registerReplay(replayDriver{
		name: "bpmn.distributeFlows on N parked tokens and M outgoing flows",
		match: func(ob *Oblig) bool {
			return (ob.Class == "post" || ob.Class == "inv-keep" || ob.Class == "panic") && strings.HasPrefix(ob.Func, "bpmn.distributeFlows")
		},
		terms: func(ob *Oblig) []ModelVar {
			var out []ModelVar
			if v := ob.inputTerm("awaitingActions"); v != "" {
				out = append(out, ModelVar{Name: "N", Term: "(s_len " + v + ")"})
			}
			if v := ob.inputTerm("sequenceFlows"); v != "" {
				out = append(out, ModelVar{Name: "M", Term: "(s_len " + v + ")"})
			}
			return out
		},
		build: func(ob *Oblig, m map[string]string) (string, string, bool) {
			n, ok1 := modelInt(m["N"])
			mm, ok2 := modelInt(m["M"])
			if !ok1 || !ok2 || n < 0 || mm < 0 || n > 20000 || mm > 20000 {
				return "", "", false
			}
			src := fmt.Sprintf(`package bpmn

import (
	"testing"
	"time"
)

// generated by gocv from the model of obligation %s
func TestGocvReplay(t *testing.T) {
	const n, m = %d, %d
	chans := make([]chan IAction, n)
	for i := range chans {
		chans[i] = make(chan IAction, 4)
	}
	flows := make([]*SequenceFlow, m)
	for i := range flows {
		flows[i] = new(SequenceFlow)
	}
	done := make(chan struct{})
	go func() { defer close(done); distributeFlows(chans, flows) }()
	select {
	case <-done:
	case <-time.After(2 * time.Second):
		t.Fatal("distributeFlows did not return")
	}
	handed := map[*SequenceFlow]int{}
	for i, ch := range chans {
		if len(ch) != 1 {
			t.Fatalf("parked token %%d of %%d was answered %%d times (outgoing flows: %%d)", i, n, len(ch), m)
		}
		switch a := (<-ch).(type) {
		case flowAction:
			if len(a.unconditionalFlows) != len(a.sequenceFlows) {
				t.Fatalf("token %%d: %%d flows, %%d of them pre-selected", i, len(a.sequenceFlows), len(a.unconditionalFlows))
			}
			for k, idx := range a.unconditionalFlows {
				if idx != k {
					t.Fatalf("token %%d: pre-selected index %%d at position %%d", i, idx, k)
				}
				handed[a.sequenceFlows[idx]]++
			}
		case completeAction:
		default:
			t.Fatalf("token %%d: unexpected action %%T", i, a)
		}
	}
	if n > 0 {
		for i, f := range flows {
			if handed[f] != 1 {
				t.Fatalf("outgoing flow %%d of %%d was handed out %%d times to %%d parked tokens", i, m, handed[f], n)
			}
		}
	}
}
`, ob.Name, n, mm)
			return ".", src, true
		},
	})
}

// ---------------------------------------------------------------------------
// driver: (*ProcessSet).triggerCatch$1 (C18) — the canceller must forget the listener it wakes: the replay registers a
// listening catch event, wakes it, and lets a second throw for the same catch event arrive (which must be a no-op).

func init() {
	registerReplay(replayDriver{
		modelFree: true,
		name:      "bpmn.ProcessSet: a second throw for a catch event that was woken already",
		match: func(ob *Oblig) bool {
			return strings.HasPrefix(ob.Func, "bpmn.(*ProcessSet).triggerCatch$1") && strings.Contains(ob.Name, "listener-forgotten")
		},
		build: func(ob *Oblig, m map[string]string) (string, string, bool) {
			src := fmt.Sprintf(`package bpmn

import "testing"

// generated by gocv for obligation %s
func TestGocvReplay(t *testing.T) {
	ps := &ProcessSet{catchCh: map[string]chan struct{}{"catchC": make(chan struct{})}}
	wake, ok := ps.triggerCatch("catchC")
	if !ok {
		t.Fatal("the registered catch event was not found")
	}
	wake()
	defer func() {
		if r := recover(); r != nil {
			t.Fatalf("a second throw for a catch event that was woken already: %%v", r)
		}
	}()
	if again, ok := ps.triggerCatch("catchC"); ok {
		again()
		t.Fatalf("the woken catch event is still registered as listening")
	}
}
`, ob.Name)
			return ".", src, true
		},
	})
}

// ---------------------------------------------------------------------------
// driver: (*Sno).RestoreIdGenerator (C20) — a generator that is not restored from a snapshot must draw a partition of
// its own: two generators created from empty bytes, one identifier each, must differ in their partition.

func init() {
	registerReplay(replayDriver{
		modelFree: true,
		name:      "pkg/id: two generators created without a snapshot",
		match: func(ob *Oblig) bool {
			return strings.HasPrefix(ob.Func, "pkg/id.(*Sno).RestoreIdGenerator") && strings.Contains(ob.Name, "draws-its-own-partition")
		},
		build: func(ob *Oblig, m map[string]string) (string, string, bool) {
			src := fmt.Sprintf(`package id

import (
	"context"
	"testing"

	"github.com/olive-io/bpmn/v2/pkg/tracing"
)

// generated by gocv for obligation %s
func TestGocvReplay(t *testing.T) {
	ctx, cancel := context.WithCancel(context.Background())
	defer cancel()
	tracer := tracing.NewTracer(ctx)
	g1, err := GetSno().RestoreIdGenerator(ctx, nil, tracer)
	if err != nil {
		t.Fatal(err)
	}
	g2, err := GetSno().RestoreIdGenerator(ctx, []byte{}, tracer)
	if err != nil {
		t.Fatal(err)
	}
	p1 := g1.(*SnoGenerator).Generator.Partition()
	p2 := g2.(*SnoGenerator).Generator.Partition()
	if p1 == p2 {
		t.Fatalf("two generators created without a snapshot share partition %%v: their identifiers collide whenever they draw in the same time unit", p1)
	}
}
`, ob.Name)
			return "pkg/id", src, true
		},
	})
}

// ---------------------------------------------------------------------------
// driver: xpath.New / xpath.Make (C17) — the engine's locator table must exist from construction on: the token loop
// hands every engine its locators (SetItemAwareLocator) before it evaluates a condition.

func init() {
	registerReplay(replayDriver{
		modelFree: true,
		name:      "pkg/expression/xpath: a new engine is given a locator",
		match: func(ob *Oblig) bool {
			return strings.HasPrefix(ob.Func, "pkg/expression/xpath.") &&
				(ob.Class == "repinv" && strings.Contains(ob.Name, "itemAwareLocators") || strings.Contains(ob.Name, "the-locator-table-is-created-with-the-engine"))
		},
		build: func(ob *Oblig, m map[string]string) (string, string, bool) {
			src := fmt.Sprintf(`package xpath

import (
	"context"
	"testing"

	"github.com/olive-io/bpmn/v2/pkg/data"
)

// generated by gocv for obligation %s
func TestGocvReplay(t *testing.T) {
	defer func() {
		if r := recover(); r != nil {
			t.Fatalf("a new XPath engine that is given a locator (as the token loop does before every condition): %%v", r)
		}
	}()
	engine := New(context.Background())
	engine.SetItemAwareLocator(data.LocatorObject, data.NewDataObjectContainer())
}
`, ob.Name)
			return "pkg/expression/xpath", src, true
		},
	})
}

// ---------------------------------------------------------------------------
// driver: (*flowTracker).run (C07) — the inclusive gateway's tracker subscribes to the instance's tracer when the
// gateway is built and never gives the subscription back: once the gateway's loop has ended (cancellation) nobody reads
// that channel, and the tracer blocks on it as soon as its ten slots are full.  400 parked tokens, cancel, and the
// tracer must terminate.

func init() {
	registerReplay(replayDriver{
		modelFree: true,
		name:      "bpmn inclusive gateway: cancellation with many live tokens",
		match: func(ob *Oblig) bool {
			return strings.HasPrefix(ob.Func, "bpmn.(*flowTracker).run") && strings.Contains(ob.Name, "subscription-is-given-back")
		},
		build: func(ob *Oblig, m map[string]string) (string, string, bool) {
			return ".", "// generated by gocv for obligation " + ob.Name + "\n" + trackerLeakTest, true
		},
	})
}

const trackerLeakTest = `package bpmn_test

import (
	"context"
	"encoding/xml"
	"strings"
	"testing"
	"time"

	"github.com/olive-io/bpmn/schema"
	"github.com/olive-io/bpmn/v2"
	"github.com/olive-io/bpmn/v2/pkg/tracing"
)

const igXML = ` + "`" + `<?xml version="1.0" encoding="UTF-8"?>
<bpmn:definitions xmlns:bpmn="http://www.omg.org/spec/BPMN/20100524/MODEL" xmlns:xsi="http://www.w3.org/2001/XMLSchema-instance" id="D" targetNamespace="http://bpmn.io/schema/bpmn">
  <bpmn:process id="P" isExecutable="true">
    <bpmn:startEvent id="s"><bpmn:outgoing>f0x</bpmn:outgoing></bpmn:startEvent>
    <bpmn:USEGW id="ig"><bpmn:incoming>f0x</bpmn:incoming><bpmn:outgoing>g0</bpmn:outgoing></bpmn:USEGW>
    <bpmn:sequenceFlow id="f0x" sourceRef="s" targetRef="ig" />
    <bpmn:sequenceFlow id="g0" sourceRef="ig" targetRef="fork">GWCOND</bpmn:sequenceFlow>
    <bpmn:parallelGateway id="fork"><bpmn:incoming>g0</bpmn:incoming><bpmn:outgoing>f0</bpmn:outgoing><bpmn:outgoing>f1</bpmn:outgoing><bpmn:outgoing>f2</bpmn:outgoing><bpmn:outgoing>f3</bpmn:outgoing><bpmn:outgoing>f4</bpmn:outgoing><bpmn:outgoing>f5</bpmn:outgoing><bpmn:outgoing>f6</bpmn:outgoing><bpmn:outgoing>f7</bpmn:outgoing><bpmn:outgoing>f8</bpmn:outgoing><bpmn:outgoing>f9</bpmn:outgoing><bpmn:outgoing>f10</bpmn:outgoing><bpmn:outgoing>f11</bpmn:outgoing><bpmn:outgoing>f12</bpmn:outgoing><bpmn:outgoing>f13</bpmn:outgoing><bpmn:outgoing>f14</bpmn:outgoing><bpmn:outgoing>f15</bpmn:outgoing><bpmn:outgoing>f16</bpmn:outgoing><bpmn:outgoing>f17</bpmn:outgoing><bpmn:outgoing>f18</bpmn:outgoing><bpmn:outgoing>f19</bpmn:outgoing><bpmn:outgoing>f20</bpmn:outgoing><bpmn:outgoing>f21</bpmn:outgoing><bpmn:outgoing>f22</bpmn:outgoing><bpmn:outgoing>f23</bpmn:outgoing><bpmn:outgoing>f24</bpmn:outgoing><bpmn:outgoing>f25</bpmn:outgoing><bpmn:outgoing>f26</bpmn:outgoing><bpmn:outgoing>f27</bpmn:outgoing><bpmn:outgoing>f28</bpmn:outgoing><bpmn:outgoing>f29</bpmn:outgoing><bpmn:outgoing>f30</bpmn:outgoing><bpmn:outgoing>f31</bpmn:outgoing><bpmn:outgoing>f32</bpmn:outgoing><bpmn:outgoing>f33</bpmn:outgoing><bpmn:outgoing>f34</bpmn:outgoing><bpmn:outgoing>f35</bpmn:outgoing><bpmn:outgoing>f36</bpmn:outgoing><bpmn:outgoing>f37</bpmn:outgoing><bpmn:outgoing>f38</bpmn:outgoing><bpmn:outgoing>f39</bpmn:outgoing><bpmn:outgoing>f40</bpmn:outgoing><bpmn:outgoing>f41</bpmn:outgoing><bpmn:outgoing>f42</bpmn:outgoing><bpmn:outgoing>f43</bpmn:outgoing><bpmn:outgoing>f44</bpmn:outgoing><bpmn:outgoing>f45</bpmn:outgoing><bpmn:outgoing>f46</bpmn:outgoing><bpmn:outgoing>f47</bpmn:outgoing><bpmn:outgoing>f48</bpmn:outgoing><bpmn:outgoing>f49</bpmn:outgoing><bpmn:outgoing>f50</bpmn:outgoing><bpmn:outgoing>f51</bpmn:outgoing><bpmn:outgoing>f52</bpmn:outgoing><bpmn:outgoing>f53</bpmn:outgoing><bpmn:outgoing>f54</bpmn:outgoing><bpmn:outgoing>f55</bpmn:outgoing><bpmn:outgoing>f56</bpmn:outgoing><bpmn:outgoing>f57</bpmn:outgoing><bpmn:outgoing>f58</bpmn:outgoing><bpmn:outgoing>f59</bpmn:outgoing><bpmn:outgoing>f60</bpmn:outgoing><bpmn:outgoing>f61</bpmn:outgoing><bpmn:outgoing>f62</bpmn:outgoing><bpmn:outgoing>f63</bpmn:outgoing><bpmn:outgoing>f64</bpmn:outgoing><bpmn:outgoing>f65</bpmn:outgoing><bpmn:outgoing>f66</bpmn:outgoing><bpmn:outgoing>f67</bpmn:outgoing><bpmn:outgoing>f68</bpmn:outgoing><bpmn:outgoing>f69</bpmn:outgoing><bpmn:outgoing>f70</bpmn:outgoing><bpmn:outgoing>f71</bpmn:outgoing><bpmn:outgoing>f72</bpmn:outgoing><bpmn:outgoing>f73</bpmn:outgoing><bpmn:outgoing>f74</bpmn:outgoing><bpmn:outgoing>f75</bpmn:outgoing><bpmn:outgoing>f76</bpmn:outgoing><bpmn:outgoing>f77</bpmn:outgoing><bpmn:outgoing>f78</bpmn:outgoing><bpmn:outgoing>f79</bpmn:outgoing><bpmn:outgoing>f80</bpmn:outgoing><bpmn:outgoing>f81</bpmn:outgoing><bpmn:outgoing>f82</bpmn:outgoing><bpmn:outgoing>f83</bpmn:outgoing><bpmn:outgoing>f84</bpmn:outgoing><bpmn:outgoing>f85</bpmn:outgoing><bpmn:outgoing>f86</bpmn:outgoing><bpmn:outgoing>f87</bpmn:outgoing><bpmn:outgoing>f88</bpmn:outgoing><bpmn:outgoing>f89</bpmn:outgoing><bpmn:outgoing>f90</bpmn:outgoing><bpmn:outgoing>f91</bpmn:outgoing><bpmn:outgoing>f92</bpmn:outgoing><bpmn:outgoing>f93</bpmn:outgoing><bpmn:outgoing>f94</bpmn:outgoing><bpmn:outgoing>f95</bpmn:outgoing><bpmn:outgoing>f96</bpmn:outgoing><bpmn:outgoing>f97</bpmn:outgoing><bpmn:outgoing>f98</bpmn:outgoing><bpmn:outgoing>f99</bpmn:outgoing><bpmn:outgoing>f100</bpmn:outgoing><bpmn:outgoing>f101</bpmn:outgoing><bpmn:outgoing>f102</bpmn:outgoing><bpmn:outgoing>f103</bpmn:outgoing><bpmn:outgoing>f104</bpmn:outgoing><bpmn:outgoing>f105</bpmn:outgoing><bpmn:outgoing>f106</bpmn:outgoing><bpmn:outgoing>f107</bpmn:outgoing><bpmn:outgoing>f108</bpmn:outgoing><bpmn:outgoing>f109</bpmn:outgoing><bpmn:outgoing>f110</bpmn:outgoing><bpmn:outgoing>f111</bpmn:outgoing><bpmn:outgoing>f112</bpmn:outgoing><bpmn:outgoing>f113</bpmn:outgoing><bpmn:outgoing>f114</bpmn:outgoing><bpmn:outgoing>f115</bpmn:outgoing><bpmn:outgoing>f116</bpmn:outgoing><bpmn:outgoing>f117</bpmn:outgoing><bpmn:outgoing>f118</bpmn:outgoing><bpmn:outgoing>f119</bpmn:outgoing><bpmn:outgoing>f120</bpmn:outgoing><bpmn:outgoing>f121</bpmn:outgoing><bpmn:outgoing>f122</bpmn:outgoing><bpmn:outgoing>f123</bpmn:outgoing><bpmn:outgoing>f124</bpmn:outgoing><bpmn:outgoing>f125</bpmn:outgoing><bpmn:outgoing>f126</bpmn:outgoing><bpmn:outgoing>f127</bpmn:outgoing><bpmn:outgoing>f128</bpmn:outgoing><bpmn:outgoing>f129</bpmn:outgoing><bpmn:outgoing>f130</bpmn:outgoing><bpmn:outgoing>f131</bpmn:outgoing><bpmn:outgoing>f132</bpmn:outgoing><bpmn:outgoing>f133</bpmn:outgoing><bpmn:outgoing>f134</bpmn:outgoing><bpmn:outgoing>f135</bpmn:outgoing><bpmn:outgoing>f136</bpmn:outgoing><bpmn:outgoing>f137</bpmn:outgoing><bpmn:outgoing>f138</bpmn:outgoing><bpmn:outgoing>f139</bpmn:outgoing><bpmn:outgoing>f140</bpmn:outgoing><bpmn:outgoing>f141</bpmn:outgoing><bpmn:outgoing>f142</bpmn:outgoing><bpmn:outgoing>f143</bpmn:outgoing><bpmn:outgoing>f144</bpmn:outgoing><bpmn:outgoing>f145</bpmn:outgoing><bpmn:outgoing>f146</bpmn:outgoing><bpmn:outgoing>f147</bpmn:outgoing><bpmn:outgoing>f148</bpmn:outgoing><bpmn:outgoing>f149</bpmn:outgoing><bpmn:outgoing>f150</bpmn:outgoing><bpmn:outgoing>f151</bpmn:outgoing><bpmn:outgoing>f152</bpmn:outgoing><bpmn:outgoing>f153</bpmn:outgoing><bpmn:outgoing>f154</bpmn:outgoing><bpmn:outgoing>f155</bpmn:outgoing><bpmn:outgoing>f156</bpmn:outgoing><bpmn:outgoing>f157</bpmn:outgoing><bpmn:outgoing>f158</bpmn:outgoing><bpmn:outgoing>f159</bpmn:outgoing><bpmn:outgoing>f160</bpmn:outgoing><bpmn:outgoing>f161</bpmn:outgoing><bpmn:outgoing>f162</bpmn:outgoing><bpmn:outgoing>f163</bpmn:outgoing><bpmn:outgoing>f164</bpmn:outgoing><bpmn:outgoing>f165</bpmn:outgoing><bpmn:outgoing>f166</bpmn:outgoing><bpmn:outgoing>f167</bpmn:outgoing><bpmn:outgoing>f168</bpmn:outgoing><bpmn:outgoing>f169</bpmn:outgoing><bpmn:outgoing>f170</bpmn:outgoing><bpmn:outgoing>f171</bpmn:outgoing><bpmn:outgoing>f172</bpmn:outgoing><bpmn:outgoing>f173</bpmn:outgoing><bpmn:outgoing>f174</bpmn:outgoing><bpmn:outgoing>f175</bpmn:outgoing><bpmn:outgoing>f176</bpmn:outgoing><bpmn:outgoing>f177</bpmn:outgoing><bpmn:outgoing>f178</bpmn:outgoing><bpmn:outgoing>f179</bpmn:outgoing><bpmn:outgoing>f180</bpmn:outgoing><bpmn:outgoing>f181</bpmn:outgoing><bpmn:outgoing>f182</bpmn:outgoing><bpmn:outgoing>f183</bpmn:outgoing><bpmn:outgoing>f184</bpmn:outgoing><bpmn:outgoing>f185</bpmn:outgoing><bpmn:outgoing>f186</bpmn:outgoing><bpmn:outgoing>f187</bpmn:outgoing><bpmn:outgoing>f188</bpmn:outgoing><bpmn:outgoing>f189</bpmn:outgoing><bpmn:outgoing>f190</bpmn:outgoing><bpmn:outgoing>f191</bpmn:outgoing><bpmn:outgoing>f192</bpmn:outgoing><bpmn:outgoing>f193</bpmn:outgoing><bpmn:outgoing>f194</bpmn:outgoing><bpmn:outgoing>f195</bpmn:outgoing><bpmn:outgoing>f196</bpmn:outgoing><bpmn:outgoing>f197</bpmn:outgoing><bpmn:outgoing>f198</bpmn:outgoing><bpmn:outgoing>f199</bpmn:outgoing><bpmn:outgoing>f200</bpmn:outgoing><bpmn:outgoing>f201</bpmn:outgoing><bpmn:outgoing>f202</bpmn:outgoing><bpmn:outgoing>f203</bpmn:outgoing><bpmn:outgoing>f204</bpmn:outgoing><bpmn:outgoing>f205</bpmn:outgoing><bpmn:outgoing>f206</bpmn:outgoing><bpmn:outgoing>f207</bpmn:outgoing><bpmn:outgoing>f208</bpmn:outgoing><bpmn:outgoing>f209</bpmn:outgoing><bpmn:outgoing>f210</bpmn:outgoing><bpmn:outgoing>f211</bpmn:outgoing><bpmn:outgoing>f212</bpmn:outgoing><bpmn:outgoing>f213</bpmn:outgoing><bpmn:outgoing>f214</bpmn:outgoing><bpmn:outgoing>f215</bpmn:outgoing><bpmn:outgoing>f216</bpmn:outgoing><bpmn:outgoing>f217</bpmn:outgoing><bpmn:outgoing>f218</bpmn:outgoing><bpmn:outgoing>f219</bpmn:outgoing><bpmn:outgoing>f220</bpmn:outgoing><bpmn:outgoing>f221</bpmn:outgoing><bpmn:outgoing>f222</bpmn:outgoing><bpmn:outgoing>f223</bpmn:outgoing><bpmn:outgoing>f224</bpmn:outgoing><bpmn:outgoing>f225</bpmn:outgoing><bpmn:outgoing>f226</bpmn:outgoing><bpmn:outgoing>f227</bpmn:outgoing><bpmn:outgoing>f228</bpmn:outgoing><bpmn:outgoing>f229</bpmn:outgoing><bpmn:outgoing>f230</bpmn:outgoing><bpmn:outgoing>f231</bpmn:outgoing><bpmn:outgoing>f232</bpmn:outgoing><bpmn:outgoing>f233</bpmn:outgoing><bpmn:outgoing>f234</bpmn:outgoing><bpmn:outgoing>f235</bpmn:outgoing><bpmn:outgoing>f236</bpmn:outgoing><bpmn:outgoing>f237</bpmn:outgoing><bpmn:outgoing>f238</bpmn:outgoing><bpmn:outgoing>f239</bpmn:outgoing><bpmn:outgoing>f240</bpmn:outgoing><bpmn:outgoing>f241</bpmn:outgoing><bpmn:outgoing>f242</bpmn:outgoing><bpmn:outgoing>f243</bpmn:outgoing><bpmn:outgoing>f244</bpmn:outgoing><bpmn:outgoing>f245</bpmn:outgoing><bpmn:outgoing>f246</bpmn:outgoing><bpmn:outgoing>f247</bpmn:outgoing><bpmn:outgoing>f248</bpmn:outgoing><bpmn:outgoing>f249</bpmn:outgoing><bpmn:outgoing>f250</bpmn:outgoing><bpmn:outgoing>f251</bpmn:outgoing><bpmn:outgoing>f252</bpmn:outgoing><bpmn:outgoing>f253</bpmn:outgoing><bpmn:outgoing>f254</bpmn:outgoing><bpmn:outgoing>f255</bpmn:outgoing><bpmn:outgoing>f256</bpmn:outgoing><bpmn:outgoing>f257</bpmn:outgoing><bpmn:outgoing>f258</bpmn:outgoing><bpmn:outgoing>f259</bpmn:outgoing><bpmn:outgoing>f260</bpmn:outgoing><bpmn:outgoing>f261</bpmn:outgoing><bpmn:outgoing>f262</bpmn:outgoing><bpmn:outgoing>f263</bpmn:outgoing><bpmn:outgoing>f264</bpmn:outgoing><bpmn:outgoing>f265</bpmn:outgoing><bpmn:outgoing>f266</bpmn:outgoing><bpmn:outgoing>f267</bpmn:outgoing><bpmn:outgoing>f268</bpmn:outgoing><bpmn:outgoing>f269</bpmn:outgoing><bpmn:outgoing>f270</bpmn:outgoing><bpmn:outgoing>f271</bpmn:outgoing><bpmn:outgoing>f272</bpmn:outgoing><bpmn:outgoing>f273</bpmn:outgoing><bpmn:outgoing>f274</bpmn:outgoing><bpmn:outgoing>f275</bpmn:outgoing><bpmn:outgoing>f276</bpmn:outgoing><bpmn:outgoing>f277</bpmn:outgoing><bpmn:outgoing>f278</bpmn:outgoing><bpmn:outgoing>f279</bpmn:outgoing><bpmn:outgoing>f280</bpmn:outgoing><bpmn:outgoing>f281</bpmn:outgoing><bpmn:outgoing>f282</bpmn:outgoing><bpmn:outgoing>f283</bpmn:outgoing><bpmn:outgoing>f284</bpmn:outgoing><bpmn:outgoing>f285</bpmn:outgoing><bpmn:outgoing>f286</bpmn:outgoing><bpmn:outgoing>f287</bpmn:outgoing><bpmn:outgoing>f288</bpmn:outgoing><bpmn:outgoing>f289</bpmn:outgoing><bpmn:outgoing>f290</bpmn:outgoing><bpmn:outgoing>f291</bpmn:outgoing><bpmn:outgoing>f292</bpmn:outgoing><bpmn:outgoing>f293</bpmn:outgoing><bpmn:outgoing>f294</bpmn:outgoing><bpmn:outgoing>f295</bpmn:outgoing><bpmn:outgoing>f296</bpmn:outgoing><bpmn:outgoing>f297</bpmn:outgoing><bpmn:outgoing>f298</bpmn:outgoing><bpmn:outgoing>f299</bpmn:outgoing><bpmn:outgoing>f300</bpmn:outgoing><bpmn:outgoing>f301</bpmn:outgoing><bpmn:outgoing>f302</bpmn:outgoing><bpmn:outgoing>f303</bpmn:outgoing><bpmn:outgoing>f304</bpmn:outgoing><bpmn:outgoing>f305</bpmn:outgoing><bpmn:outgoing>f306</bpmn:outgoing><bpmn:outgoing>f307</bpmn:outgoing><bpmn:outgoing>f308</bpmn:outgoing><bpmn:outgoing>f309</bpmn:outgoing><bpmn:outgoing>f310</bpmn:outgoing><bpmn:outgoing>f311</bpmn:outgoing><bpmn:outgoing>f312</bpmn:outgoing><bpmn:outgoing>f313</bpmn:outgoing><bpmn:outgoing>f314</bpmn:outgoing><bpmn:outgoing>f315</bpmn:outgoing><bpmn:outgoing>f316</bpmn:outgoing><bpmn:outgoing>f317</bpmn:outgoing><bpmn:outgoing>f318</bpmn:outgoing><bpmn:outgoing>f319</bpmn:outgoing><bpmn:outgoing>f320</bpmn:outgoing><bpmn:outgoing>f321</bpmn:outgoing><bpmn:outgoing>f322</bpmn:outgoing><bpmn:outgoing>f323</bpmn:outgoing><bpmn:outgoing>f324</bpmn:outgoing><bpmn:outgoing>f325</bpmn:outgoing><bpmn:outgoing>f326</bpmn:outgoing><bpmn:outgoing>f327</bpmn:outgoing><bpmn:outgoing>f328</bpmn:outgoing><bpmn:outgoing>f329</bpmn:outgoing><bpmn:outgoing>f330</bpmn:outgoing><bpmn:outgoing>f331</bpmn:outgoing><bpmn:outgoing>f332</bpmn:outgoing><bpmn:outgoing>f333</bpmn:outgoing><bpmn:outgoing>f334</bpmn:outgoing><bpmn:outgoing>f335</bpmn:outgoing><bpmn:outgoing>f336</bpmn:outgoing><bpmn:outgoing>f337</bpmn:outgoing><bpmn:outgoing>f338</bpmn:outgoing><bpmn:outgoing>f339</bpmn:outgoing><bpmn:outgoing>f340</bpmn:outgoing><bpmn:outgoing>f341</bpmn:outgoing><bpmn:outgoing>f342</bpmn:outgoing><bpmn:outgoing>f343</bpmn:outgoing><bpmn:outgoing>f344</bpmn:outgoing><bpmn:outgoing>f345</bpmn:outgoing><bpmn:outgoing>f346</bpmn:outgoing><bpmn:outgoing>f347</bpmn:outgoing><bpmn:outgoing>f348</bpmn:outgoing><bpmn:outgoing>f349</bpmn:outgoing><bpmn:outgoing>f350</bpmn:outgoing><bpmn:outgoing>f351</bpmn:outgoing><bpmn:outgoing>f352</bpmn:outgoing><bpmn:outgoing>f353</bpmn:outgoing><bpmn:outgoing>f354</bpmn:outgoing><bpmn:outgoing>f355</bpmn:outgoing><bpmn:outgoing>f356</bpmn:outgoing><bpmn:outgoing>f357</bpmn:outgoing><bpmn:outgoing>f358</bpmn:outgoing><bpmn:outgoing>f359</bpmn:outgoing><bpmn:outgoing>f360</bpmn:outgoing><bpmn:outgoing>f361</bpmn:outgoing><bpmn:outgoing>f362</bpmn:outgoing><bpmn:outgoing>f363</bpmn:outgoing><bpmn:outgoing>f364</bpmn:outgoing><bpmn:outgoing>f365</bpmn:outgoing><bpmn:outgoing>f366</bpmn:outgoing><bpmn:outgoing>f367</bpmn:outgoing><bpmn:outgoing>f368</bpmn:outgoing><bpmn:outgoing>f369</bpmn:outgoing><bpmn:outgoing>f370</bpmn:outgoing><bpmn:outgoing>f371</bpmn:outgoing><bpmn:outgoing>f372</bpmn:outgoing><bpmn:outgoing>f373</bpmn:outgoing><bpmn:outgoing>f374</bpmn:outgoing><bpmn:outgoing>f375</bpmn:outgoing><bpmn:outgoing>f376</bpmn:outgoing><bpmn:outgoing>f377</bpmn:outgoing><bpmn:outgoing>f378</bpmn:outgoing><bpmn:outgoing>f379</bpmn:outgoing><bpmn:outgoing>f380</bpmn:outgoing><bpmn:outgoing>f381</bpmn:outgoing><bpmn:outgoing>f382</bpmn:outgoing><bpmn:outgoing>f383</bpmn:outgoing><bpmn:outgoing>f384</bpmn:outgoing><bpmn:outgoing>f385</bpmn:outgoing><bpmn:outgoing>f386</bpmn:outgoing><bpmn:outgoing>f387</bpmn:outgoing><bpmn:outgoing>f388</bpmn:outgoing><bpmn:outgoing>f389</bpmn:outgoing><bpmn:outgoing>f390</bpmn:outgoing><bpmn:outgoing>f391</bpmn:outgoing><bpmn:outgoing>f392</bpmn:outgoing><bpmn:outgoing>f393</bpmn:outgoing><bpmn:outgoing>f394</bpmn:outgoing><bpmn:outgoing>f395</bpmn:outgoing><bpmn:outgoing>f396</bpmn:outgoing><bpmn:outgoing>f397</bpmn:outgoing><bpmn:outgoing>f398</bpmn:outgoing><bpmn:outgoing>f399</bpmn:outgoing></bpmn:parallelGateway>
    <bpmn:task id="t0"><bpmn:incoming>f0</bpmn:incoming></bpmn:task><bpmn:sequenceFlow id="f0" sourceRef="fork" targetRef="t0" /><bpmn:task id="t1"><bpmn:incoming>f1</bpmn:incoming></bpmn:task><bpmn:sequenceFlow id="f1" sourceRef="fork" targetRef="t1" /><bpmn:task id="t2"><bpmn:incoming>f2</bpmn:incoming></bpmn:task><bpmn:sequenceFlow id="f2" sourceRef="fork" targetRef="t2" /><bpmn:task id="t3"><bpmn:incoming>f3</bpmn:incoming></bpmn:task><bpmn:sequenceFlow id="f3" sourceRef="fork" targetRef="t3" /><bpmn:task id="t4"><bpmn:incoming>f4</bpmn:incoming></bpmn:task><bpmn:sequenceFlow id="f4" sourceRef="fork" targetRef="t4" /><bpmn:task id="t5"><bpmn:incoming>f5</bpmn:incoming></bpmn:task><bpmn:sequenceFlow id="f5" sourceRef="fork" targetRef="t5" /><bpmn:task id="t6"><bpmn:incoming>f6</bpmn:incoming></bpmn:task><bpmn:sequenceFlow id="f6" sourceRef="fork" targetRef="t6" /><bpmn:task id="t7"><bpmn:incoming>f7</bpmn:incoming></bpmn:task><bpmn:sequenceFlow id="f7" sourceRef="fork" targetRef="t7" /><bpmn:task id="t8"><bpmn:incoming>f8</bpmn:incoming></bpmn:task><bpmn:sequenceFlow id="f8" sourceRef="fork" targetRef="t8" /><bpmn:task id="t9"><bpmn:incoming>f9</bpmn:incoming></bpmn:task><bpmn:sequenceFlow id="f9" sourceRef="fork" targetRef="t9" /><bpmn:task id="t10"><bpmn:incoming>f10</bpmn:incoming></bpmn:task><bpmn:sequenceFlow id="f10" sourceRef="fork" targetRef="t10" /><bpmn:task id="t11"><bpmn:incoming>f11</bpmn:incoming></bpmn:task><bpmn:sequenceFlow id="f11" sourceRef="fork" targetRef="t11" /><bpmn:task id="t12"><bpmn:incoming>f12</bpmn:incoming></bpmn:task><bpmn:sequenceFlow id="f12" sourceRef="fork" targetRef="t12" /><bpmn:task id="t13"><bpmn:incoming>f13</bpmn:incoming></bpmn:task><bpmn:sequenceFlow id="f13" sourceRef="fork" targetRef="t13" /><bpmn:task id="t14"><bpmn:incoming>f14</bpmn:incoming></bpmn:task><bpmn:sequenceFlow id="f14" sourceRef="fork" targetRef="t14" /><bpmn:task id="t15"><bpmn:incoming>f15</bpmn:incoming></bpmn:task><bpmn:sequenceFlow id="f15" sourceRef="fork" targetRef="t15" /><bpmn:task id="t16"><bpmn:incoming>f16</bpmn:incoming></bpmn:task><bpmn:sequenceFlow id="f16" sourceRef="fork" targetRef="t16" /><bpmn:task id="t17"><bpmn:incoming>f17</bpmn:incoming></bpmn:task><bpmn:sequenceFlow id="f17" sourceRef="fork" targetRef="t17" /><bpmn:task id="t18"><bpmn:incoming>f18</bpmn:incoming></bpmn:task><bpmn:sequenceFlow id="f18" sourceRef="fork" targetRef="t18" /><bpmn:task id="t19"><bpmn:incoming>f19</bpmn:incoming></bpmn:task><bpmn:sequenceFlow id="f19" sourceRef="fork" targetRef="t19" /><bpmn:task id="t20"><bpmn:incoming>f20</bpmn:incoming></bpmn:task><bpmn:sequenceFlow id="f20" sourceRef="fork" targetRef="t20" /><bpmn:task id="t21"><bpmn:incoming>f21</bpmn:incoming></bpmn:task><bpmn:sequenceFlow id="f21" sourceRef="fork" targetRef="t21" /><bpmn:task id="t22"><bpmn:incoming>f22</bpmn:incoming></bpmn:task><bpmn:sequenceFlow id="f22" sourceRef="fork" targetRef="t22" /><bpmn:task id="t23"><bpmn:incoming>f23</bpmn:incoming></bpmn:task><bpmn:sequenceFlow id="f23" sourceRef="fork" targetRef="t23" /><bpmn:task id="t24"><bpmn:incoming>f24</bpmn:incoming></bpmn:task><bpmn:sequenceFlow id="f24" sourceRef="fork" targetRef="t24" /><bpmn:task id="t25"><bpmn:incoming>f25</bpmn:incoming></bpmn:task><bpmn:sequenceFlow id="f25" sourceRef="fork" targetRef="t25" /><bpmn:task id="t26"><bpmn:incoming>f26</bpmn:incoming></bpmn:task><bpmn:sequenceFlow id="f26" sourceRef="fork" targetRef="t26" /><bpmn:task id="t27"><bpmn:incoming>f27</bpmn:incoming></bpmn:task><bpmn:sequenceFlow id="f27" sourceRef="fork" targetRef="t27" /><bpmn:task id="t28"><bpmn:incoming>f28</bpmn:incoming></bpmn:task><bpmn:sequenceFlow id="f28" sourceRef="fork" targetRef="t28" /><bpmn:task id="t29"><bpmn:incoming>f29</bpmn:incoming></bpmn:task><bpmn:sequenceFlow id="f29" sourceRef="fork" targetRef="t29" /><bpmn:task id="t30"><bpmn:incoming>f30</bpmn:incoming></bpmn:task><bpmn:sequenceFlow id="f30" sourceRef="fork" targetRef="t30" /><bpmn:task id="t31"><bpmn:incoming>f31</bpmn:incoming></bpmn:task><bpmn:sequenceFlow id="f31" sourceRef="fork" targetRef="t31" /><bpmn:task id="t32"><bpmn:incoming>f32</bpmn:incoming></bpmn:task><bpmn:sequenceFlow id="f32" sourceRef="fork" targetRef="t32" /><bpmn:task id="t33"><bpmn:incoming>f33</bpmn:incoming></bpmn:task><bpmn:sequenceFlow id="f33" sourceRef="fork" targetRef="t33" /><bpmn:task id="t34"><bpmn:incoming>f34</bpmn:incoming></bpmn:task><bpmn:sequenceFlow id="f34" sourceRef="fork" targetRef="t34" /><bpmn:task id="t35"><bpmn:incoming>f35</bpmn:incoming></bpmn:task><bpmn:sequenceFlow id="f35" sourceRef="fork" targetRef="t35" /><bpmn:task id="t36"><bpmn:incoming>f36</bpmn:incoming></bpmn:task><bpmn:sequenceFlow id="f36" sourceRef="fork" targetRef="t36" /><bpmn:task id="t37"><bpmn:incoming>f37</bpmn:incoming></bpmn:task><bpmn:sequenceFlow id="f37" sourceRef="fork" targetRef="t37" /><bpmn:task id="t38"><bpmn:incoming>f38</bpmn:incoming></bpmn:task><bpmn:sequenceFlow id="f38" sourceRef="fork" targetRef="t38" /><bpmn:task id="t39"><bpmn:incoming>f39</bpmn:incoming></bpmn:task><bpmn:sequenceFlow id="f39" sourceRef="fork" targetRef="t39" /><bpmn:task id="t40"><bpmn:incoming>f40</bpmn:incoming></bpmn:task><bpmn:sequenceFlow id="f40" sourceRef="fork" targetRef="t40" /><bpmn:task id="t41"><bpmn:incoming>f41</bpmn:incoming></bpmn:task><bpmn:sequenceFlow id="f41" sourceRef="fork" targetRef="t41" /><bpmn:task id="t42"><bpmn:incoming>f42</bpmn:incoming></bpmn:task><bpmn:sequenceFlow id="f42" sourceRef="fork" targetRef="t42" /><bpmn:task id="t43"><bpmn:incoming>f43</bpmn:incoming></bpmn:task><bpmn:sequenceFlow id="f43" sourceRef="fork" targetRef="t43" /><bpmn:task id="t44"><bpmn:incoming>f44</bpmn:incoming></bpmn:task><bpmn:sequenceFlow id="f44" sourceRef="fork" targetRef="t44" /><bpmn:task id="t45"><bpmn:incoming>f45</bpmn:incoming></bpmn:task><bpmn:sequenceFlow id="f45" sourceRef="fork" targetRef="t45" /><bpmn:task id="t46"><bpmn:incoming>f46</bpmn:incoming></bpmn:task><bpmn:sequenceFlow id="f46" sourceRef="fork" targetRef="t46" /><bpmn:task id="t47"><bpmn:incoming>f47</bpmn:incoming></bpmn:task><bpmn:sequenceFlow id="f47" sourceRef="fork" targetRef="t47" /><bpmn:task id="t48"><bpmn:incoming>f48</bpmn:incoming></bpmn:task><bpmn:sequenceFlow id="f48" sourceRef="fork" targetRef="t48" /><bpmn:task id="t49"><bpmn:incoming>f49</bpmn:incoming></bpmn:task><bpmn:sequenceFlow id="f49" sourceRef="fork" targetRef="t49" /><bpmn:task id="t50"><bpmn:incoming>f50</bpmn:incoming></bpmn:task><bpmn:sequenceFlow id="f50" sourceRef="fork" targetRef="t50" /><bpmn:task id="t51"><bpmn:incoming>f51</bpmn:incoming></bpmn:task><bpmn:sequenceFlow id="f51" sourceRef="fork" targetRef="t51" /><bpmn:task id="t52"><bpmn:incoming>f52</bpmn:incoming></bpmn:task><bpmn:sequenceFlow id="f52" sourceRef="fork" targetRef="t52" /><bpmn:task id="t53"><bpmn:incoming>f53</bpmn:incoming></bpmn:task><bpmn:sequenceFlow id="f53" sourceRef="fork" targetRef="t53" /><bpmn:task id="t54"><bpmn:incoming>f54</bpmn:incoming></bpmn:task><bpmn:sequenceFlow id="f54" sourceRef="fork" targetRef="t54" /><bpmn:task id="t55"><bpmn:incoming>f55</bpmn:incoming></bpmn:task><bpmn:sequenceFlow id="f55" sourceRef="fork" targetRef="t55" /><bpmn:task id="t56"><bpmn:incoming>f56</bpmn:incoming></bpmn:task><bpmn:sequenceFlow id="f56" sourceRef="fork" targetRef="t56" /><bpmn:task id="t57"><bpmn:incoming>f57</bpmn:incoming></bpmn:task><bpmn:sequenceFlow id="f57" sourceRef="fork" targetRef="t57" /><bpmn:task id="t58"><bpmn:incoming>f58</bpmn:incoming></bpmn:task><bpmn:sequenceFlow id="f58" sourceRef="fork" targetRef="t58" /><bpmn:task id="t59"><bpmn:incoming>f59</bpmn:incoming></bpmn:task><bpmn:sequenceFlow id="f59" sourceRef="fork" targetRef="t59" /><bpmn:task id="t60"><bpmn:incoming>f60</bpmn:incoming></bpmn:task><bpmn:sequenceFlow id="f60" sourceRef="fork" targetRef="t60" /><bpmn:task id="t61"><bpmn:incoming>f61</bpmn:incoming></bpmn:task><bpmn:sequenceFlow id="f61" sourceRef="fork" targetRef="t61" /><bpmn:task id="t62"><bpmn:incoming>f62</bpmn:incoming></bpmn:task><bpmn:sequenceFlow id="f62" sourceRef="fork" targetRef="t62" /><bpmn:task id="t63"><bpmn:incoming>f63</bpmn:incoming></bpmn:task><bpmn:sequenceFlow id="f63" sourceRef="fork" targetRef="t63" /><bpmn:task id="t64"><bpmn:incoming>f64</bpmn:incoming></bpmn:task><bpmn:sequenceFlow id="f64" sourceRef="fork" targetRef="t64" /><bpmn:task id="t65"><bpmn:incoming>f65</bpmn:incoming></bpmn:task><bpmn:sequenceFlow id="f65" sourceRef="fork" targetRef="t65" /><bpmn:task id="t66"><bpmn:incoming>f66</bpmn:incoming></bpmn:task><bpmn:sequenceFlow id="f66" sourceRef="fork" targetRef="t66" /><bpmn:task id="t67"><bpmn:incoming>f67</bpmn:incoming></bpmn:task><bpmn:sequenceFlow id="f67" sourceRef="fork" targetRef="t67" /><bpmn:task id="t68"><bpmn:incoming>f68</bpmn:incoming></bpmn:task><bpmn:sequenceFlow id="f68" sourceRef="fork" targetRef="t68" /><bpmn:task id="t69"><bpmn:incoming>f69</bpmn:incoming></bpmn:task><bpmn:sequenceFlow id="f69" sourceRef="fork" targetRef="t69" /><bpmn:task id="t70"><bpmn:incoming>f70</bpmn:incoming></bpmn:task><bpmn:sequenceFlow id="f70" sourceRef="fork" targetRef="t70" /><bpmn:task id="t71"><bpmn:incoming>f71</bpmn:incoming></bpmn:task><bpmn:sequenceFlow id="f71" sourceRef="fork" targetRef="t71" /><bpmn:task id="t72"><bpmn:incoming>f72</bpmn:incoming></bpmn:task><bpmn:sequenceFlow id="f72" sourceRef="fork" targetRef="t72" /><bpmn:task id="t73"><bpmn:incoming>f73</bpmn:incoming></bpmn:task><bpmn:sequenceFlow id="f73" sourceRef="fork" targetRef="t73" /><bpmn:task id="t74"><bpmn:incoming>f74</bpmn:incoming></bpmn:task><bpmn:sequenceFlow id="f74" sourceRef="fork" targetRef="t74" /><bpmn:task id="t75"><bpmn:incoming>f75</bpmn:incoming></bpmn:task><bpmn:sequenceFlow id="f75" sourceRef="fork" targetRef="t75" /><bpmn:task id="t76"><bpmn:incoming>f76</bpmn:incoming></bpmn:task><bpmn:sequenceFlow id="f76" sourceRef="fork" targetRef="t76" /><bpmn:task id="t77"><bpmn:incoming>f77</bpmn:incoming></bpmn:task><bpmn:sequenceFlow id="f77" sourceRef="fork" targetRef="t77" /><bpmn:task id="t78"><bpmn:incoming>f78</bpmn:incoming></bpmn:task><bpmn:sequenceFlow id="f78" sourceRef="fork" targetRef="t78" /><bpmn:task id="t79"><bpmn:incoming>f79</bpmn:incoming></bpmn:task><bpmn:sequenceFlow id="f79" sourceRef="fork" targetRef="t79" /><bpmn:task id="t80"><bpmn:incoming>f80</bpmn:incoming></bpmn:task><bpmn:sequenceFlow id="f80" sourceRef="fork" targetRef="t80" /><bpmn:task id="t81"><bpmn:incoming>f81</bpmn:incoming></bpmn:task><bpmn:sequenceFlow id="f81" sourceRef="fork" targetRef="t81" /><bpmn:task id="t82"><bpmn:incoming>f82</bpmn:incoming></bpmn:task><bpmn:sequenceFlow id="f82" sourceRef="fork" targetRef="t82" /><bpmn:task id="t83"><bpmn:incoming>f83</bpmn:incoming></bpmn:task><bpmn:sequenceFlow id="f83" sourceRef="fork" targetRef="t83" /><bpmn:task id="t84"><bpmn:incoming>f84</bpmn:incoming></bpmn:task><bpmn:sequenceFlow id="f84" sourceRef="fork" targetRef="t84" /><bpmn:task id="t85"><bpmn:incoming>f85</bpmn:incoming></bpmn:task><bpmn:sequenceFlow id="f85" sourceRef="fork" targetRef="t85" /><bpmn:task id="t86"><bpmn:incoming>f86</bpmn:incoming></bpmn:task><bpmn:sequenceFlow id="f86" sourceRef="fork" targetRef="t86" /><bpmn:task id="t87"><bpmn:incoming>f87</bpmn:incoming></bpmn:task><bpmn:sequenceFlow id="f87" sourceRef="fork" targetRef="t87" /><bpmn:task id="t88"><bpmn:incoming>f88</bpmn:incoming></bpmn:task><bpmn:sequenceFlow id="f88" sourceRef="fork" targetRef="t88" /><bpmn:task id="t89"><bpmn:incoming>f89</bpmn:incoming></bpmn:task><bpmn:sequenceFlow id="f89" sourceRef="fork" targetRef="t89" /><bpmn:task id="t90"><bpmn:incoming>f90</bpmn:incoming></bpmn:task><bpmn:sequenceFlow id="f90" sourceRef="fork" targetRef="t90" /><bpmn:task id="t91"><bpmn:incoming>f91</bpmn:incoming></bpmn:task><bpmn:sequenceFlow id="f91" sourceRef="fork" targetRef="t91" /><bpmn:task id="t92"><bpmn:incoming>f92</bpmn:incoming></bpmn:task><bpmn:sequenceFlow id="f92" sourceRef="fork" targetRef="t92" /><bpmn:task id="t93"><bpmn:incoming>f93</bpmn:incoming></bpmn:task><bpmn:sequenceFlow id="f93" sourceRef="fork" targetRef="t93" /><bpmn:task id="t94"><bpmn:incoming>f94</bpmn:incoming></bpmn:task><bpmn:sequenceFlow id="f94" sourceRef="fork" targetRef="t94" /><bpmn:task id="t95"><bpmn:incoming>f95</bpmn:incoming></bpmn:task><bpmn:sequenceFlow id="f95" sourceRef="fork" targetRef="t95" /><bpmn:task id="t96"><bpmn:incoming>f96</bpmn:incoming></bpmn:task><bpmn:sequenceFlow id="f96" sourceRef="fork" targetRef="t96" /><bpmn:task id="t97"><bpmn:incoming>f97</bpmn:incoming></bpmn:task><bpmn:sequenceFlow id="f97" sourceRef="fork" targetRef="t97" /><bpmn:task id="t98"><bpmn:incoming>f98</bpmn:incoming></bpmn:task><bpmn:sequenceFlow id="f98" sourceRef="fork" targetRef="t98" /><bpmn:task id="t99"><bpmn:incoming>f99</bpmn:incoming></bpmn:task><bpmn:sequenceFlow id="f99" sourceRef="fork" targetRef="t99" /><bpmn:task id="t100"><bpmn:incoming>f100</bpmn:incoming></bpmn:task><bpmn:sequenceFlow id="f100" sourceRef="fork" targetRef="t100" /><bpmn:task id="t101"><bpmn:incoming>f101</bpmn:incoming></bpmn:task><bpmn:sequenceFlow id="f101" sourceRef="fork" targetRef="t101" /><bpmn:task id="t102"><bpmn:incoming>f102</bpmn:incoming></bpmn:task><bpmn:sequenceFlow id="f102" sourceRef="fork" targetRef="t102" /><bpmn:task id="t103"><bpmn:incoming>f103</bpmn:incoming></bpmn:task><bpmn:sequenceFlow id="f103" sourceRef="fork" targetRef="t103" /><bpmn:task id="t104"><bpmn:incoming>f104</bpmn:incoming></bpmn:task><bpmn:sequenceFlow id="f104" sourceRef="fork" targetRef="t104" /><bpmn:task id="t105"><bpmn:incoming>f105</bpmn:incoming></bpmn:task><bpmn:sequenceFlow id="f105" sourceRef="fork" targetRef="t105" /><bpmn:task id="t106"><bpmn:incoming>f106</bpmn:incoming></bpmn:task><bpmn:sequenceFlow id="f106" sourceRef="fork" targetRef="t106" /><bpmn:task id="t107"><bpmn:incoming>f107</bpmn:incoming></bpmn:task><bpmn:sequenceFlow id="f107" sourceRef="fork" targetRef="t107" /><bpmn:task id="t108"><bpmn:incoming>f108</bpmn:incoming></bpmn:task><bpmn:sequenceFlow id="f108" sourceRef="fork" targetRef="t108" /><bpmn:task id="t109"><bpmn:incoming>f109</bpmn:incoming></bpmn:task><bpmn:sequenceFlow id="f109" sourceRef="fork" targetRef="t109" /><bpmn:task id="t110"><bpmn:incoming>f110</bpmn:incoming></bpmn:task><bpmn:sequenceFlow id="f110" sourceRef="fork" targetRef="t110" /><bpmn:task id="t111"><bpmn:incoming>f111</bpmn:incoming></bpmn:task><bpmn:sequenceFlow id="f111" sourceRef="fork" targetRef="t111" /><bpmn:task id="t112"><bpmn:incoming>f112</bpmn:incoming></bpmn:task><bpmn:sequenceFlow id="f112" sourceRef="fork" targetRef="t112" /><bpmn:task id="t113"><bpmn:incoming>f113</bpmn:incoming></bpmn:task><bpmn:sequenceFlow id="f113" sourceRef="fork" targetRef="t113" /><bpmn:task id="t114"><bpmn:incoming>f114</bpmn:incoming></bpmn:task><bpmn:sequenceFlow id="f114" sourceRef="fork" targetRef="t114" /><bpmn:task id="t115"><bpmn:incoming>f115</bpmn:incoming></bpmn:task><bpmn:sequenceFlow id="f115" sourceRef="fork" targetRef="t115" /><bpmn:task id="t116"><bpmn:incoming>f116</bpmn:incoming></bpmn:task><bpmn:sequenceFlow id="f116" sourceRef="fork" targetRef="t116" /><bpmn:task id="t117"><bpmn:incoming>f117</bpmn:incoming></bpmn:task><bpmn:sequenceFlow id="f117" sourceRef="fork" targetRef="t117" /><bpmn:task id="t118"><bpmn:incoming>f118</bpmn:incoming></bpmn:task><bpmn:sequenceFlow id="f118" sourceRef="fork" targetRef="t118" /><bpmn:task id="t119"><bpmn:incoming>f119</bpmn:incoming></bpmn:task><bpmn:sequenceFlow id="f119" sourceRef="fork" targetRef="t119" /><bpmn:task id="t120"><bpmn:incoming>f120</bpmn:incoming></bpmn:task><bpmn:sequenceFlow id="f120" sourceRef="fork" targetRef="t120" /><bpmn:task id="t121"><bpmn:incoming>f121</bpmn:incoming></bpmn:task><bpmn:sequenceFlow id="f121" sourceRef="fork" targetRef="t121" /><bpmn:task id="t122"><bpmn:incoming>f122</bpmn:incoming></bpmn:task><bpmn:sequenceFlow id="f122" sourceRef="fork" targetRef="t122" /><bpmn:task id="t123"><bpmn:incoming>f123</bpmn:incoming></bpmn:task><bpmn:sequenceFlow id="f123" sourceRef="fork" targetRef="t123" /><bpmn:task id="t124"><bpmn:incoming>f124</bpmn:incoming></bpmn:task><bpmn:sequenceFlow id="f124" sourceRef="fork" targetRef="t124" /><bpmn:task id="t125"><bpmn:incoming>f125</bpmn:incoming></bpmn:task><bpmn:sequenceFlow id="f125" sourceRef="fork" targetRef="t125" /><bpmn:task id="t126"><bpmn:incoming>f126</bpmn:incoming></bpmn:task><bpmn:sequenceFlow id="f126" sourceRef="fork" targetRef="t126" /><bpmn:task id="t127"><bpmn:incoming>f127</bpmn:incoming></bpmn:task><bpmn:sequenceFlow id="f127" sourceRef="fork" targetRef="t127" /><bpmn:task id="t128"><bpmn:incoming>f128</bpmn:incoming></bpmn:task><bpmn:sequenceFlow id="f128" sourceRef="fork" targetRef="t128" /><bpmn:task id="t129"><bpmn:incoming>f129</bpmn:incoming></bpmn:task><bpmn:sequenceFlow id="f129" sourceRef="fork" targetRef="t129" /><bpmn:task id="t130"><bpmn:incoming>f130</bpmn:incoming></bpmn:task><bpmn:sequenceFlow id="f130" sourceRef="fork" targetRef="t130" /><bpmn:task id="t131"><bpmn:incoming>f131</bpmn:incoming></bpmn:task><bpmn:sequenceFlow id="f131" sourceRef="fork" targetRef="t131" /><bpmn:task id="t132"><bpmn:incoming>f132</bpmn:incoming></bpmn:task><bpmn:sequenceFlow id="f132" sourceRef="fork" targetRef="t132" /><bpmn:task id="t133"><bpmn:incoming>f133</bpmn:incoming></bpmn:task><bpmn:sequenceFlow id="f133" sourceRef="fork" targetRef="t133" /><bpmn:task id="t134"><bpmn:incoming>f134</bpmn:incoming></bpmn:task><bpmn:sequenceFlow id="f134" sourceRef="fork" targetRef="t134" /><bpmn:task id="t135"><bpmn:incoming>f135</bpmn:incoming></bpmn:task><bpmn:sequenceFlow id="f135" sourceRef="fork" targetRef="t135" /><bpmn:task id="t136"><bpmn:incoming>f136</bpmn:incoming></bpmn:task><bpmn:sequenceFlow id="f136" sourceRef="fork" targetRef="t136" /><bpmn:task id="t137"><bpmn:incoming>f137</bpmn:incoming></bpmn:task><bpmn:sequenceFlow id="f137" sourceRef="fork" targetRef="t137" /><bpmn:task id="t138"><bpmn:incoming>f138</bpmn:incoming></bpmn:task><bpmn:sequenceFlow id="f138" sourceRef="fork" targetRef="t138" /><bpmn:task id="t139"><bpmn:incoming>f139</bpmn:incoming></bpmn:task><bpmn:sequenceFlow id="f139" sourceRef="fork" targetRef="t139" /><bpmn:task id="t140"><bpmn:incoming>f140</bpmn:incoming></bpmn:task><bpmn:sequenceFlow id="f140" sourceRef="fork" targetRef="t140" /><bpmn:task id="t141"><bpmn:incoming>f141</bpmn:incoming></bpmn:task><bpmn:sequenceFlow id="f141" sourceRef="fork" targetRef="t141" /><bpmn:task id="t142"><bpmn:incoming>f142</bpmn:incoming></bpmn:task><bpmn:sequenceFlow id="f142" sourceRef="fork" targetRef="t142" /><bpmn:task id="t143"><bpmn:incoming>f143</bpmn:incoming></bpmn:task><bpmn:sequenceFlow id="f143" sourceRef="fork" targetRef="t143" /><bpmn:task id="t144"><bpmn:incoming>f144</bpmn:incoming></bpmn:task><bpmn:sequenceFlow id="f144" sourceRef="fork" targetRef="t144" /><bpmn:task id="t145"><bpmn:incoming>f145</bpmn:incoming></bpmn:task><bpmn:sequenceFlow id="f145" sourceRef="fork" targetRef="t145" /><bpmn:task id="t146"><bpmn:incoming>f146</bpmn:incoming></bpmn:task><bpmn:sequenceFlow id="f146" sourceRef="fork" targetRef="t146" /><bpmn:task id="t147"><bpmn:incoming>f147</bpmn:incoming></bpmn:task><bpmn:sequenceFlow id="f147" sourceRef="fork" targetRef="t147" /><bpmn:task id="t148"><bpmn:incoming>f148</bpmn:incoming></bpmn:task><bpmn:sequenceFlow id="f148" sourceRef="fork" targetRef="t148" /><bpmn:task id="t149"><bpmn:incoming>f149</bpmn:incoming></bpmn:task><bpmn:sequenceFlow id="f149" sourceRef="fork" targetRef="t149" /><bpmn:task id="t150"><bpmn:incoming>f150</bpmn:incoming></bpmn:task><bpmn:sequenceFlow id="f150" sourceRef="fork" targetRef="t150" /><bpmn:task id="t151"><bpmn:incoming>f151</bpmn:incoming></bpmn:task><bpmn:sequenceFlow id="f151" sourceRef="fork" targetRef="t151" /><bpmn:task id="t152"><bpmn:incoming>f152</bpmn:incoming></bpmn:task><bpmn:sequenceFlow id="f152" sourceRef="fork" targetRef="t152" /><bpmn:task id="t153"><bpmn:incoming>f153</bpmn:incoming></bpmn:task><bpmn:sequenceFlow id="f153" sourceRef="fork" targetRef="t153" /><bpmn:task id="t154"><bpmn:incoming>f154</bpmn:incoming></bpmn:task><bpmn:sequenceFlow id="f154" sourceRef="fork" targetRef="t154" /><bpmn:task id="t155"><bpmn:incoming>f155</bpmn:incoming></bpmn:task><bpmn:sequenceFlow id="f155" sourceRef="fork" targetRef="t155" /><bpmn:task id="t156"><bpmn:incoming>f156</bpmn:incoming></bpmn:task><bpmn:sequenceFlow id="f156" sourceRef="fork" targetRef="t156" /><bpmn:task id="t157"><bpmn:incoming>f157</bpmn:incoming></bpmn:task><bpmn:sequenceFlow id="f157" sourceRef="fork" targetRef="t157" /><bpmn:task id="t158"><bpmn:incoming>f158</bpmn:incoming></bpmn:task><bpmn:sequenceFlow id="f158" sourceRef="fork" targetRef="t158" /><bpmn:task id="t159"><bpmn:incoming>f159</bpmn:incoming></bpmn:task><bpmn:sequenceFlow id="f159" sourceRef="fork" targetRef="t159" /><bpmn:task id="t160"><bpmn:incoming>f160</bpmn:incoming></bpmn:task><bpmn:sequenceFlow id="f160" sourceRef="fork" targetRef="t160" /><bpmn:task id="t161"><bpmn:incoming>f161</bpmn:incoming></bpmn:task><bpmn:sequenceFlow id="f161" sourceRef="fork" targetRef="t161" /><bpmn:task id="t162"><bpmn:incoming>f162</bpmn:incoming></bpmn:task><bpmn:sequenceFlow id="f162" sourceRef="fork" targetRef="t162" /><bpmn:task id="t163"><bpmn:incoming>f163</bpmn:incoming></bpmn:task><bpmn:sequenceFlow id="f163" sourceRef="fork" targetRef="t163" /><bpmn:task id="t164"><bpmn:incoming>f164</bpmn:incoming></bpmn:task><bpmn:sequenceFlow id="f164" sourceRef="fork" targetRef="t164" /><bpmn:task id="t165"><bpmn:incoming>f165</bpmn:incoming></bpmn:task><bpmn:sequenceFlow id="f165" sourceRef="fork" targetRef="t165" /><bpmn:task id="t166"><bpmn:incoming>f166</bpmn:incoming></bpmn:task><bpmn:sequenceFlow id="f166" sourceRef="fork" targetRef="t166" /><bpmn:task id="t167"><bpmn:incoming>f167</bpmn:incoming></bpmn:task><bpmn:sequenceFlow id="f167" sourceRef="fork" targetRef="t167" /><bpmn:task id="t168"><bpmn:incoming>f168</bpmn:incoming></bpmn:task><bpmn:sequenceFlow id="f168" sourceRef="fork" targetRef="t168" /><bpmn:task id="t169"><bpmn:incoming>f169</bpmn:incoming></bpmn:task><bpmn:sequenceFlow id="f169" sourceRef="fork" targetRef="t169" /><bpmn:task id="t170"><bpmn:incoming>f170</bpmn:incoming></bpmn:task><bpmn:sequenceFlow id="f170" sourceRef="fork" targetRef="t170" /><bpmn:task id="t171"><bpmn:incoming>f171</bpmn:incoming></bpmn:task><bpmn:sequenceFlow id="f171" sourceRef="fork" targetRef="t171" /><bpmn:task id="t172"><bpmn:incoming>f172</bpmn:incoming></bpmn:task><bpmn:sequenceFlow id="f172" sourceRef="fork" targetRef="t172" /><bpmn:task id="t173"><bpmn:incoming>f173</bpmn:incoming></bpmn:task><bpmn:sequenceFlow id="f173" sourceRef="fork" targetRef="t173" /><bpmn:task id="t174"><bpmn:incoming>f174</bpmn:incoming></bpmn:task><bpmn:sequenceFlow id="f174" sourceRef="fork" targetRef="t174" /><bpmn:task id="t175"><bpmn:incoming>f175</bpmn:incoming></bpmn:task><bpmn:sequenceFlow id="f175" sourceRef="fork" targetRef="t175" /><bpmn:task id="t176"><bpmn:incoming>f176</bpmn:incoming></bpmn:task><bpmn:sequenceFlow id="f176" sourceRef="fork" targetRef="t176" /><bpmn:task id="t177"><bpmn:incoming>f177</bpmn:incoming></bpmn:task><bpmn:sequenceFlow id="f177" sourceRef="fork" targetRef="t177" /><bpmn:task id="t178"><bpmn:incoming>f178</bpmn:incoming></bpmn:task><bpmn:sequenceFlow id="f178" sourceRef="fork" targetRef="t178" /><bpmn:task id="t179"><bpmn:incoming>f179</bpmn:incoming></bpmn:task><bpmn:sequenceFlow id="f179" sourceRef="fork" targetRef="t179" /><bpmn:task id="t180"><bpmn:incoming>f180</bpmn:incoming></bpmn:task><bpmn:sequenceFlow id="f180" sourceRef="fork" targetRef="t180" /><bpmn:task id="t181"><bpmn:incoming>f181</bpmn:incoming></bpmn:task><bpmn:sequenceFlow id="f181" sourceRef="fork" targetRef="t181" /><bpmn:task id="t182"><bpmn:incoming>f182</bpmn:incoming></bpmn:task><bpmn:sequenceFlow id="f182" sourceRef="fork" targetRef="t182" /><bpmn:task id="t183"><bpmn:incoming>f183</bpmn:incoming></bpmn:task><bpmn:sequenceFlow id="f183" sourceRef="fork" targetRef="t183" /><bpmn:task id="t184"><bpmn:incoming>f184</bpmn:incoming></bpmn:task><bpmn:sequenceFlow id="f184" sourceRef="fork" targetRef="t184" /><bpmn:task id="t185"><bpmn:incoming>f185</bpmn:incoming></bpmn:task><bpmn:sequenceFlow id="f185" sourceRef="fork" targetRef="t185" /><bpmn:task id="t186"><bpmn:incoming>f186</bpmn:incoming></bpmn:task><bpmn:sequenceFlow id="f186" sourceRef="fork" targetRef="t186" /><bpmn:task id="t187"><bpmn:incoming>f187</bpmn:incoming></bpmn:task><bpmn:sequenceFlow id="f187" sourceRef="fork" targetRef="t187" /><bpmn:task id="t188"><bpmn:incoming>f188</bpmn:incoming></bpmn:task><bpmn:sequenceFlow id="f188" sourceRef="fork" targetRef="t188" /><bpmn:task id="t189"><bpmn:incoming>f189</bpmn:incoming></bpmn:task><bpmn:sequenceFlow id="f189" sourceRef="fork" targetRef="t189" /><bpmn:task id="t190"><bpmn:incoming>f190</bpmn:incoming></bpmn:task><bpmn:sequenceFlow id="f190" sourceRef="fork" targetRef="t190" /><bpmn:task id="t191"><bpmn:incoming>f191</bpmn:incoming></bpmn:task><bpmn:sequenceFlow id="f191" sourceRef="fork" targetRef="t191" /><bpmn:task id="t192"><bpmn:incoming>f192</bpmn:incoming></bpmn:task><bpmn:sequenceFlow id="f192" sourceRef="fork" targetRef="t192" /><bpmn:task id="t193"><bpmn:incoming>f193</bpmn:incoming></bpmn:task><bpmn:sequenceFlow id="f193" sourceRef="fork" targetRef="t193" /><bpmn:task id="t194"><bpmn:incoming>f194</bpmn:incoming></bpmn:task><bpmn:sequenceFlow id="f194" sourceRef="fork" targetRef="t194" /><bpmn:task id="t195"><bpmn:incoming>f195</bpmn:incoming></bpmn:task><bpmn:sequenceFlow id="f195" sourceRef="fork" targetRef="t195" /><bpmn:task id="t196"><bpmn:incoming>f196</bpmn:incoming></bpmn:task><bpmn:sequenceFlow id="f196" sourceRef="fork" targetRef="t196" /><bpmn:task id="t197"><bpmn:incoming>f197</bpmn:incoming></bpmn:task><bpmn:sequenceFlow id="f197" sourceRef="fork" targetRef="t197" /><bpmn:task id="t198"><bpmn:incoming>f198</bpmn:incoming></bpmn:task><bpmn:sequenceFlow id="f198" sourceRef="fork" targetRef="t198" /><bpmn:task id="t199"><bpmn:incoming>f199</bpmn:incoming></bpmn:task><bpmn:sequenceFlow id="f199" sourceRef="fork" targetRef="t199" /><bpmn:task id="t200"><bpmn:incoming>f200</bpmn:incoming></bpmn:task><bpmn:sequenceFlow id="f200" sourceRef="fork" targetRef="t200" /><bpmn:task id="t201"><bpmn:incoming>f201</bpmn:incoming></bpmn:task><bpmn:sequenceFlow id="f201" sourceRef="fork" targetRef="t201" /><bpmn:task id="t202"><bpmn:incoming>f202</bpmn:incoming></bpmn:task><bpmn:sequenceFlow id="f202" sourceRef="fork" targetRef="t202" /><bpmn:task id="t203"><bpmn:incoming>f203</bpmn:incoming></bpmn:task><bpmn:sequenceFlow id="f203" sourceRef="fork" targetRef="t203" /><bpmn:task id="t204"><bpmn:incoming>f204</bpmn:incoming></bpmn:task><bpmn:sequenceFlow id="f204" sourceRef="fork" targetRef="t204" /><bpmn:task id="t205"><bpmn:incoming>f205</bpmn:incoming></bpmn:task><bpmn:sequenceFlow id="f205" sourceRef="fork" targetRef="t205" /><bpmn:task id="t206"><bpmn:incoming>f206</bpmn:incoming></bpmn:task><bpmn:sequenceFlow id="f206" sourceRef="fork" targetRef="t206" /><bpmn:task id="t207"><bpmn:incoming>f207</bpmn:incoming></bpmn:task><bpmn:sequenceFlow id="f207" sourceRef="fork" targetRef="t207" /><bpmn:task id="t208"><bpmn:incoming>f208</bpmn:incoming></bpmn:task><bpmn:sequenceFlow id="f208" sourceRef="fork" targetRef="t208" /><bpmn:task id="t209"><bpmn:incoming>f209</bpmn:incoming></bpmn:task><bpmn:sequenceFlow id="f209" sourceRef="fork" targetRef="t209" /><bpmn:task id="t210"><bpmn:incoming>f210</bpmn:incoming></bpmn:task><bpmn:sequenceFlow id="f210" sourceRef="fork" targetRef="t210" /><bpmn:task id="t211"><bpmn:incoming>f211</bpmn:incoming></bpmn:task><bpmn:sequenceFlow id="f211" sourceRef="fork" targetRef="t211" /><bpmn:task id="t212"><bpmn:incoming>f212</bpmn:incoming></bpmn:task><bpmn:sequenceFlow id="f212" sourceRef="fork" targetRef="t212" /><bpmn:task id="t213"><bpmn:incoming>f213</bpmn:incoming></bpmn:task><bpmn:sequenceFlow id="f213" sourceRef="fork" targetRef="t213" /><bpmn:task id="t214"><bpmn:incoming>f214</bpmn:incoming></bpmn:task><bpmn:sequenceFlow id="f214" sourceRef="fork" targetRef="t214" /><bpmn:task id="t215"><bpmn:incoming>f215</bpmn:incoming></bpmn:task><bpmn:sequenceFlow id="f215" sourceRef="fork" targetRef="t215" /><bpmn:task id="t216"><bpmn:incoming>f216</bpmn:incoming></bpmn:task><bpmn:sequenceFlow id="f216" sourceRef="fork" targetRef="t216" /><bpmn:task id="t217"><bpmn:incoming>f217</bpmn:incoming></bpmn:task><bpmn:sequenceFlow id="f217" sourceRef="fork" targetRef="t217" /><bpmn:task id="t218"><bpmn:incoming>f218</bpmn:incoming></bpmn:task><bpmn:sequenceFlow id="f218" sourceRef="fork" targetRef="t218" /><bpmn:task id="t219"><bpmn:incoming>f219</bpmn:incoming></bpmn:task><bpmn:sequenceFlow id="f219" sourceRef="fork" targetRef="t219" /><bpmn:task id="t220"><bpmn:incoming>f220</bpmn:incoming></bpmn:task><bpmn:sequenceFlow id="f220" sourceRef="fork" targetRef="t220" /><bpmn:task id="t221"><bpmn:incoming>f221</bpmn:incoming></bpmn:task><bpmn:sequenceFlow id="f221" sourceRef="fork" targetRef="t221" /><bpmn:task id="t222"><bpmn:incoming>f222</bpmn:incoming></bpmn:task><bpmn:sequenceFlow id="f222" sourceRef="fork" targetRef="t222" /><bpmn:task id="t223"><bpmn:incoming>f223</bpmn:incoming></bpmn:task><bpmn:sequenceFlow id="f223" sourceRef="fork" targetRef="t223" /><bpmn:task id="t224"><bpmn:incoming>f224</bpmn:incoming></bpmn:task><bpmn:sequenceFlow id="f224" sourceRef="fork" targetRef="t224" /><bpmn:task id="t225"><bpmn:incoming>f225</bpmn:incoming></bpmn:task><bpmn:sequenceFlow id="f225" sourceRef="fork" targetRef="t225" /><bpmn:task id="t226"><bpmn:incoming>f226</bpmn:incoming></bpmn:task><bpmn:sequenceFlow id="f226" sourceRef="fork" targetRef="t226" /><bpmn:task id="t227"><bpmn:incoming>f227</bpmn:incoming></bpmn:task><bpmn:sequenceFlow id="f227" sourceRef="fork" targetRef="t227" /><bpmn:task id="t228"><bpmn:incoming>f228</bpmn:incoming></bpmn:task><bpmn:sequenceFlow id="f228" sourceRef="fork" targetRef="t228" /><bpmn:task id="t229"><bpmn:incoming>f229</bpmn:incoming></bpmn:task><bpmn:sequenceFlow id="f229" sourceRef="fork" targetRef="t229" /><bpmn:task id="t230"><bpmn:incoming>f230</bpmn:incoming></bpmn:task><bpmn:sequenceFlow id="f230" sourceRef="fork" targetRef="t230" /><bpmn:task id="t231"><bpmn:incoming>f231</bpmn:incoming></bpmn:task><bpmn:sequenceFlow id="f231" sourceRef="fork" targetRef="t231" /><bpmn:task id="t232"><bpmn:incoming>f232</bpmn:incoming></bpmn:task><bpmn:sequenceFlow id="f232" sourceRef="fork" targetRef="t232" /><bpmn:task id="t233"><bpmn:incoming>f233</bpmn:incoming></bpmn:task><bpmn:sequenceFlow id="f233" sourceRef="fork" targetRef="t233" /><bpmn:task id="t234"><bpmn:incoming>f234</bpmn:incoming></bpmn:task><bpmn:sequenceFlow id="f234" sourceRef="fork" targetRef="t234" /><bpmn:task id="t235"><bpmn:incoming>f235</bpmn:incoming></bpmn:task><bpmn:sequenceFlow id="f235" sourceRef="fork" targetRef="t235" /><bpmn:task id="t236"><bpmn:incoming>f236</bpmn:incoming></bpmn:task><bpmn:sequenceFlow id="f236" sourceRef="fork" targetRef="t236" /><bpmn:task id="t237"><bpmn:incoming>f237</bpmn:incoming></bpmn:task><bpmn:sequenceFlow id="f237" sourceRef="fork" targetRef="t237" /><bpmn:task id="t238"><bpmn:incoming>f238</bpmn:incoming></bpmn:task><bpmn:sequenceFlow id="f238" sourceRef="fork" targetRef="t238" /><bpmn:task id="t239"><bpmn:incoming>f239</bpmn:incoming></bpmn:task><bpmn:sequenceFlow id="f239" sourceRef="fork" targetRef="t239" /><bpmn:task id="t240"><bpmn:incoming>f240</bpmn:incoming></bpmn:task><bpmn:sequenceFlow id="f240" sourceRef="fork" targetRef="t240" /><bpmn:task id="t241"><bpmn:incoming>f241</bpmn:incoming></bpmn:task><bpmn:sequenceFlow id="f241" sourceRef="fork" targetRef="t241" /><bpmn:task id="t242"><bpmn:incoming>f242</bpmn:incoming></bpmn:task><bpmn:sequenceFlow id="f242" sourceRef="fork" targetRef="t242" /><bpmn:task id="t243"><bpmn:incoming>f243</bpmn:incoming></bpmn:task><bpmn:sequenceFlow id="f243" sourceRef="fork" targetRef="t243" /><bpmn:task id="t244"><bpmn:incoming>f244</bpmn:incoming></bpmn:task><bpmn:sequenceFlow id="f244" sourceRef="fork" targetRef="t244" /><bpmn:task id="t245"><bpmn:incoming>f245</bpmn:incoming></bpmn:task><bpmn:sequenceFlow id="f245" sourceRef="fork" targetRef="t245" /><bpmn:task id="t246"><bpmn:incoming>f246</bpmn:incoming></bpmn:task><bpmn:sequenceFlow id="f246" sourceRef="fork" targetRef="t246" /><bpmn:task id="t247"><bpmn:incoming>f247</bpmn:incoming></bpmn:task><bpmn:sequenceFlow id="f247" sourceRef="fork" targetRef="t247" /><bpmn:task id="t248"><bpmn:incoming>f248</bpmn:incoming></bpmn:task><bpmn:sequenceFlow id="f248" sourceRef="fork" targetRef="t248" /><bpmn:task id="t249"><bpmn:incoming>f249</bpmn:incoming></bpmn:task><bpmn:sequenceFlow id="f249" sourceRef="fork" targetRef="t249" /><bpmn:task id="t250"><bpmn:incoming>f250</bpmn:incoming></bpmn:task><bpmn:sequenceFlow id="f250" sourceRef="fork" targetRef="t250" /><bpmn:task id="t251"><bpmn:incoming>f251</bpmn:incoming></bpmn:task><bpmn:sequenceFlow id="f251" sourceRef="fork" targetRef="t251" /><bpmn:task id="t252"><bpmn:incoming>f252</bpmn:incoming></bpmn:task><bpmn:sequenceFlow id="f252" sourceRef="fork" targetRef="t252" /><bpmn:task id="t253"><bpmn:incoming>f253</bpmn:incoming></bpmn:task><bpmn:sequenceFlow id="f253" sourceRef="fork" targetRef="t253" /><bpmn:task id="t254"><bpmn:incoming>f254</bpmn:incoming></bpmn:task><bpmn:sequenceFlow id="f254" sourceRef="fork" targetRef="t254" /><bpmn:task id="t255"><bpmn:incoming>f255</bpmn:incoming></bpmn:task><bpmn:sequenceFlow id="f255" sourceRef="fork" targetRef="t255" /><bpmn:task id="t256"><bpmn:incoming>f256</bpmn:incoming></bpmn:task><bpmn:sequenceFlow id="f256" sourceRef="fork" targetRef="t256" /><bpmn:task id="t257"><bpmn:incoming>f257</bpmn:incoming></bpmn:task><bpmn:sequenceFlow id="f257" sourceRef="fork" targetRef="t257" /><bpmn:task id="t258"><bpmn:incoming>f258</bpmn:incoming></bpmn:task><bpmn:sequenceFlow id="f258" sourceRef="fork" targetRef="t258" /><bpmn:task id="t259"><bpmn:incoming>f259</bpmn:incoming></bpmn:task><bpmn:sequenceFlow id="f259" sourceRef="fork" targetRef="t259" /><bpmn:task id="t260"><bpmn:incoming>f260</bpmn:incoming></bpmn:task><bpmn:sequenceFlow id="f260" sourceRef="fork" targetRef="t260" /><bpmn:task id="t261"><bpmn:incoming>f261</bpmn:incoming></bpmn:task><bpmn:sequenceFlow id="f261" sourceRef="fork" targetRef="t261" /><bpmn:task id="t262"><bpmn:incoming>f262</bpmn:incoming></bpmn:task><bpmn:sequenceFlow id="f262" sourceRef="fork" targetRef="t262" /><bpmn:task id="t263"><bpmn:incoming>f263</bpmn:incoming></bpmn:task><bpmn:sequenceFlow id="f263" sourceRef="fork" targetRef="t263" /><bpmn:task id="t264"><bpmn:incoming>f264</bpmn:incoming></bpmn:task><bpmn:sequenceFlow id="f264" sourceRef="fork" targetRef="t264" /><bpmn:task id="t265"><bpmn:incoming>f265</bpmn:incoming></bpmn:task><bpmn:sequenceFlow id="f265" sourceRef="fork" targetRef="t265" /><bpmn:task id="t266"><bpmn:incoming>f266</bpmn:incoming></bpmn:task><bpmn:sequenceFlow id="f266" sourceRef="fork" targetRef="t266" /><bpmn:task id="t267"><bpmn:incoming>f267</bpmn:incoming></bpmn:task><bpmn:sequenceFlow id="f267" sourceRef="fork" targetRef="t267" /><bpmn:task id="t268"><bpmn:incoming>f268</bpmn:incoming></bpmn:task><bpmn:sequenceFlow id="f268" sourceRef="fork" targetRef="t268" /><bpmn:task id="t269"><bpmn:incoming>f269</bpmn:incoming></bpmn:task><bpmn:sequenceFlow id="f269" sourceRef="fork" targetRef="t269" /><bpmn:task id="t270"><bpmn:incoming>f270</bpmn:incoming></bpmn:task><bpmn:sequenceFlow id="f270" sourceRef="fork" targetRef="t270" /><bpmn:task id="t271"><bpmn:incoming>f271</bpmn:incoming></bpmn:task><bpmn:sequenceFlow id="f271" sourceRef="fork" targetRef="t271" /><bpmn:task id="t272"><bpmn:incoming>f272</bpmn:incoming></bpmn:task><bpmn:sequenceFlow id="f272" sourceRef="fork" targetRef="t272" /><bpmn:task id="t273"><bpmn:incoming>f273</bpmn:incoming></bpmn:task><bpmn:sequenceFlow id="f273" sourceRef="fork" targetRef="t273" /><bpmn:task id="t274"><bpmn:incoming>f274</bpmn:incoming></bpmn:task><bpmn:sequenceFlow id="f274" sourceRef="fork" targetRef="t274" /><bpmn:task id="t275"><bpmn:incoming>f275</bpmn:incoming></bpmn:task><bpmn:sequenceFlow id="f275" sourceRef="fork" targetRef="t275" /><bpmn:task id="t276"><bpmn:incoming>f276</bpmn:incoming></bpmn:task><bpmn:sequenceFlow id="f276" sourceRef="fork" targetRef="t276" /><bpmn:task id="t277"><bpmn:incoming>f277</bpmn:incoming></bpmn:task><bpmn:sequenceFlow id="f277" sourceRef="fork" targetRef="t277" /><bpmn:task id="t278"><bpmn:incoming>f278</bpmn:incoming></bpmn:task><bpmn:sequenceFlow id="f278" sourceRef="fork" targetRef="t278" /><bpmn:task id="t279"><bpmn:incoming>f279</bpmn:incoming></bpmn:task><bpmn:sequenceFlow id="f279" sourceRef="fork" targetRef="t279" /><bpmn:task id="t280"><bpmn:incoming>f280</bpmn:incoming></bpmn:task><bpmn:sequenceFlow id="f280" sourceRef="fork" targetRef="t280" /><bpmn:task id="t281"><bpmn:incoming>f281</bpmn:incoming></bpmn:task><bpmn:sequenceFlow id="f281" sourceRef="fork" targetRef="t281" /><bpmn:task id="t282"><bpmn:incoming>f282</bpmn:incoming></bpmn:task><bpmn:sequenceFlow id="f282" sourceRef="fork" targetRef="t282" /><bpmn:task id="t283"><bpmn:incoming>f283</bpmn:incoming></bpmn:task><bpmn:sequenceFlow id="f283" sourceRef="fork" targetRef="t283" /><bpmn:task id="t284"><bpmn:incoming>f284</bpmn:incoming></bpmn:task><bpmn:sequenceFlow id="f284" sourceRef="fork" targetRef="t284" /><bpmn:task id="t285"><bpmn:incoming>f285</bpmn:incoming></bpmn:task><bpmn:sequenceFlow id="f285" sourceRef="fork" targetRef="t285" /><bpmn:task id="t286"><bpmn:incoming>f286</bpmn:incoming></bpmn:task><bpmn:sequenceFlow id="f286" sourceRef="fork" targetRef="t286" /><bpmn:task id="t287"><bpmn:incoming>f287</bpmn:incoming></bpmn:task><bpmn:sequenceFlow id="f287" sourceRef="fork" targetRef="t287" /><bpmn:task id="t288"><bpmn:incoming>f288</bpmn:incoming></bpmn:task><bpmn:sequenceFlow id="f288" sourceRef="fork" targetRef="t288" /><bpmn:task id="t289"><bpmn:incoming>f289</bpmn:incoming></bpmn:task><bpmn:sequenceFlow id="f289" sourceRef="fork" targetRef="t289" /><bpmn:task id="t290"><bpmn:incoming>f290</bpmn:incoming></bpmn:task><bpmn:sequenceFlow id="f290" sourceRef="fork" targetRef="t290" /><bpmn:task id="t291"><bpmn:incoming>f291</bpmn:incoming></bpmn:task><bpmn:sequenceFlow id="f291" sourceRef="fork" targetRef="t291" /><bpmn:task id="t292"><bpmn:incoming>f292</bpmn:incoming></bpmn:task><bpmn:sequenceFlow id="f292" sourceRef="fork" targetRef="t292" /><bpmn:task id="t293"><bpmn:incoming>f293</bpmn:incoming></bpmn:task><bpmn:sequenceFlow id="f293" sourceRef="fork" targetRef="t293" /><bpmn:task id="t294"><bpmn:incoming>f294</bpmn:incoming></bpmn:task><bpmn:sequenceFlow id="f294" sourceRef="fork" targetRef="t294" /><bpmn:task id="t295"><bpmn:incoming>f295</bpmn:incoming></bpmn:task><bpmn:sequenceFlow id="f295" sourceRef="fork" targetRef="t295" /><bpmn:task id="t296"><bpmn:incoming>f296</bpmn:incoming></bpmn:task><bpmn:sequenceFlow id="f296" sourceRef="fork" targetRef="t296" /><bpmn:task id="t297"><bpmn:incoming>f297</bpmn:incoming></bpmn:task><bpmn:sequenceFlow id="f297" sourceRef="fork" targetRef="t297" /><bpmn:task id="t298"><bpmn:incoming>f298</bpmn:incoming></bpmn:task><bpmn:sequenceFlow id="f298" sourceRef="fork" targetRef="t298" /><bpmn:task id="t299"><bpmn:incoming>f299</bpmn:incoming></bpmn:task><bpmn:sequenceFlow id="f299" sourceRef="fork" targetRef="t299" /><bpmn:task id="t300"><bpmn:incoming>f300</bpmn:incoming></bpmn:task><bpmn:sequenceFlow id="f300" sourceRef="fork" targetRef="t300" /><bpmn:task id="t301"><bpmn:incoming>f301</bpmn:incoming></bpmn:task><bpmn:sequenceFlow id="f301" sourceRef="fork" targetRef="t301" /><bpmn:task id="t302"><bpmn:incoming>f302</bpmn:incoming></bpmn:task><bpmn:sequenceFlow id="f302" sourceRef="fork" targetRef="t302" /><bpmn:task id="t303"><bpmn:incoming>f303</bpmn:incoming></bpmn:task><bpmn:sequenceFlow id="f303" sourceRef="fork" targetRef="t303" /><bpmn:task id="t304"><bpmn:incoming>f304</bpmn:incoming></bpmn:task><bpmn:sequenceFlow id="f304" sourceRef="fork" targetRef="t304" /><bpmn:task id="t305"><bpmn:incoming>f305</bpmn:incoming></bpmn:task><bpmn:sequenceFlow id="f305" sourceRef="fork" targetRef="t305" /><bpmn:task id="t306"><bpmn:incoming>f306</bpmn:incoming></bpmn:task><bpmn:sequenceFlow id="f306" sourceRef="fork" targetRef="t306" /><bpmn:task id="t307"><bpmn:incoming>f307</bpmn:incoming></bpmn:task><bpmn:sequenceFlow id="f307" sourceRef="fork" targetRef="t307" /><bpmn:task id="t308"><bpmn:incoming>f308</bpmn:incoming></bpmn:task><bpmn:sequenceFlow id="f308" sourceRef="fork" targetRef="t308" /><bpmn:task id="t309"><bpmn:incoming>f309</bpmn:incoming></bpmn:task><bpmn:sequenceFlow id="f309" sourceRef="fork" targetRef="t309" /><bpmn:task id="t310"><bpmn:incoming>f310</bpmn:incoming></bpmn:task><bpmn:sequenceFlow id="f310" sourceRef="fork" targetRef="t310" /><bpmn:task id="t311"><bpmn:incoming>f311</bpmn:incoming></bpmn:task><bpmn:sequenceFlow id="f311" sourceRef="fork" targetRef="t311" /><bpmn:task id="t312"><bpmn:incoming>f312</bpmn:incoming></bpmn:task><bpmn:sequenceFlow id="f312" sourceRef="fork" targetRef="t312" /><bpmn:task id="t313"><bpmn:incoming>f313</bpmn:incoming></bpmn:task><bpmn:sequenceFlow id="f313" sourceRef="fork" targetRef="t313" /><bpmn:task id="t314"><bpmn:incoming>f314</bpmn:incoming></bpmn:task><bpmn:sequenceFlow id="f314" sourceRef="fork" targetRef="t314" /><bpmn:task id="t315"><bpmn:incoming>f315</bpmn:incoming></bpmn:task><bpmn:sequenceFlow id="f315" sourceRef="fork" targetRef="t315" /><bpmn:task id="t316"><bpmn:incoming>f316</bpmn:incoming></bpmn:task><bpmn:sequenceFlow id="f316" sourceRef="fork" targetRef="t316" /><bpmn:task id="t317"><bpmn:incoming>f317</bpmn:incoming></bpmn:task><bpmn:sequenceFlow id="f317" sourceRef="fork" targetRef="t317" /><bpmn:task id="t318"><bpmn:incoming>f318</bpmn:incoming></bpmn:task><bpmn:sequenceFlow id="f318" sourceRef="fork" targetRef="t318" /><bpmn:task id="t319"><bpmn:incoming>f319</bpmn:incoming></bpmn:task><bpmn:sequenceFlow id="f319" sourceRef="fork" targetRef="t319" /><bpmn:task id="t320"><bpmn:incoming>f320</bpmn:incoming></bpmn:task><bpmn:sequenceFlow id="f320" sourceRef="fork" targetRef="t320" /><bpmn:task id="t321"><bpmn:incoming>f321</bpmn:incoming></bpmn:task><bpmn:sequenceFlow id="f321" sourceRef="fork" targetRef="t321" /><bpmn:task id="t322"><bpmn:incoming>f322</bpmn:incoming></bpmn:task><bpmn:sequenceFlow id="f322" sourceRef="fork" targetRef="t322" /><bpmn:task id="t323"><bpmn:incoming>f323</bpmn:incoming></bpmn:task><bpmn:sequenceFlow id="f323" sourceRef="fork" targetRef="t323" /><bpmn:task id="t324"><bpmn:incoming>f324</bpmn:incoming></bpmn:task><bpmn:sequenceFlow id="f324" sourceRef="fork" targetRef="t324" /><bpmn:task id="t325"><bpmn:incoming>f325</bpmn:incoming></bpmn:task><bpmn:sequenceFlow id="f325" sourceRef="fork" targetRef="t325" /><bpmn:task id="t326"><bpmn:incoming>f326</bpmn:incoming></bpmn:task><bpmn:sequenceFlow id="f326" sourceRef="fork" targetRef="t326" /><bpmn:task id="t327"><bpmn:incoming>f327</bpmn:incoming></bpmn:task><bpmn:sequenceFlow id="f327" sourceRef="fork" targetRef="t327" /><bpmn:task id="t328"><bpmn:incoming>f328</bpmn:incoming></bpmn:task><bpmn:sequenceFlow id="f328" sourceRef="fork" targetRef="t328" /><bpmn:task id="t329"><bpmn:incoming>f329</bpmn:incoming></bpmn:task><bpmn:sequenceFlow id="f329" sourceRef="fork" targetRef="t329" /><bpmn:task id="t330"><bpmn:incoming>f330</bpmn:incoming></bpmn:task><bpmn:sequenceFlow id="f330" sourceRef="fork" targetRef="t330" /><bpmn:task id="t331"><bpmn:incoming>f331</bpmn:incoming></bpmn:task><bpmn:sequenceFlow id="f331" sourceRef="fork" targetRef="t331" /><bpmn:task id="t332"><bpmn:incoming>f332</bpmn:incoming></bpmn:task><bpmn:sequenceFlow id="f332" sourceRef="fork" targetRef="t332" /><bpmn:task id="t333"><bpmn:incoming>f333</bpmn:incoming></bpmn:task><bpmn:sequenceFlow id="f333" sourceRef="fork" targetRef="t333" /><bpmn:task id="t334"><bpmn:incoming>f334</bpmn:incoming></bpmn:task><bpmn:sequenceFlow id="f334" sourceRef="fork" targetRef="t334" /><bpmn:task id="t335"><bpmn:incoming>f335</bpmn:incoming></bpmn:task><bpmn:sequenceFlow id="f335" sourceRef="fork" targetRef="t335" /><bpmn:task id="t336"><bpmn:incoming>f336</bpmn:incoming></bpmn:task><bpmn:sequenceFlow id="f336" sourceRef="fork" targetRef="t336" /><bpmn:task id="t337"><bpmn:incoming>f337</bpmn:incoming></bpmn:task><bpmn:sequenceFlow id="f337" sourceRef="fork" targetRef="t337" /><bpmn:task id="t338"><bpmn:incoming>f338</bpmn:incoming></bpmn:task><bpmn:sequenceFlow id="f338" sourceRef="fork" targetRef="t338" /><bpmn:task id="t339"><bpmn:incoming>f339</bpmn:incoming></bpmn:task><bpmn:sequenceFlow id="f339" sourceRef="fork" targetRef="t339" /><bpmn:task id="t340"><bpmn:incoming>f340</bpmn:incoming></bpmn:task><bpmn:sequenceFlow id="f340" sourceRef="fork" targetRef="t340" /><bpmn:task id="t341"><bpmn:incoming>f341</bpmn:incoming></bpmn:task><bpmn:sequenceFlow id="f341" sourceRef="fork" targetRef="t341" /><bpmn:task id="t342"><bpmn:incoming>f342</bpmn:incoming></bpmn:task><bpmn:sequenceFlow id="f342" sourceRef="fork" targetRef="t342" /><bpmn:task id="t343"><bpmn:incoming>f343</bpmn:incoming></bpmn:task><bpmn:sequenceFlow id="f343" sourceRef="fork" targetRef="t343" /><bpmn:task id="t344"><bpmn:incoming>f344</bpmn:incoming></bpmn:task><bpmn:sequenceFlow id="f344" sourceRef="fork" targetRef="t344" /><bpmn:task id="t345"><bpmn:incoming>f345</bpmn:incoming></bpmn:task><bpmn:sequenceFlow id="f345" sourceRef="fork" targetRef="t345" /><bpmn:task id="t346"><bpmn:incoming>f346</bpmn:incoming></bpmn:task><bpmn:sequenceFlow id="f346" sourceRef="fork" targetRef="t346" /><bpmn:task id="t347"><bpmn:incoming>f347</bpmn:incoming></bpmn:task><bpmn:sequenceFlow id="f347" sourceRef="fork" targetRef="t347" /><bpmn:task id="t348"><bpmn:incoming>f348</bpmn:incoming></bpmn:task><bpmn:sequenceFlow id="f348" sourceRef="fork" targetRef="t348" /><bpmn:task id="t349"><bpmn:incoming>f349</bpmn:incoming></bpmn:task><bpmn:sequenceFlow id="f349" sourceRef="fork" targetRef="t349" /><bpmn:task id="t350"><bpmn:incoming>f350</bpmn:incoming></bpmn:task><bpmn:sequenceFlow id="f350" sourceRef="fork" targetRef="t350" /><bpmn:task id="t351"><bpmn:incoming>f351</bpmn:incoming></bpmn:task><bpmn:sequenceFlow id="f351" sourceRef="fork" targetRef="t351" /><bpmn:task id="t352"><bpmn:incoming>f352</bpmn:incoming></bpmn:task><bpmn:sequenceFlow id="f352" sourceRef="fork" targetRef="t352" /><bpmn:task id="t353"><bpmn:incoming>f353</bpmn:incoming></bpmn:task><bpmn:sequenceFlow id="f353" sourceRef="fork" targetRef="t353" /><bpmn:task id="t354"><bpmn:incoming>f354</bpmn:incoming></bpmn:task><bpmn:sequenceFlow id="f354" sourceRef="fork" targetRef="t354" /><bpmn:task id="t355"><bpmn:incoming>f355</bpmn:incoming></bpmn:task><bpmn:sequenceFlow id="f355" sourceRef="fork" targetRef="t355" /><bpmn:task id="t356"><bpmn:incoming>f356</bpmn:incoming></bpmn:task><bpmn:sequenceFlow id="f356" sourceRef="fork" targetRef="t356" /><bpmn:task id="t357"><bpmn:incoming>f357</bpmn:incoming></bpmn:task><bpmn:sequenceFlow id="f357" sourceRef="fork" targetRef="t357" /><bpmn:task id="t358"><bpmn:incoming>f358</bpmn:incoming></bpmn:task><bpmn:sequenceFlow id="f358" sourceRef="fork" targetRef="t358" /><bpmn:task id="t359"><bpmn:incoming>f359</bpmn:incoming></bpmn:task><bpmn:sequenceFlow id="f359" sourceRef="fork" targetRef="t359" /><bpmn:task id="t360"><bpmn:incoming>f360</bpmn:incoming></bpmn:task><bpmn:sequenceFlow id="f360" sourceRef="fork" targetRef="t360" /><bpmn:task id="t361"><bpmn:incoming>f361</bpmn:incoming></bpmn:task><bpmn:sequenceFlow id="f361" sourceRef="fork" targetRef="t361" /><bpmn:task id="t362"><bpmn:incoming>f362</bpmn:incoming></bpmn:task><bpmn:sequenceFlow id="f362" sourceRef="fork" targetRef="t362" /><bpmn:task id="t363"><bpmn:incoming>f363</bpmn:incoming></bpmn:task><bpmn:sequenceFlow id="f363" sourceRef="fork" targetRef="t363" /><bpmn:task id="t364"><bpmn:incoming>f364</bpmn:incoming></bpmn:task><bpmn:sequenceFlow id="f364" sourceRef="fork" targetRef="t364" /><bpmn:task id="t365"><bpmn:incoming>f365</bpmn:incoming></bpmn:task><bpmn:sequenceFlow id="f365" sourceRef="fork" targetRef="t365" /><bpmn:task id="t366"><bpmn:incoming>f366</bpmn:incoming></bpmn:task><bpmn:sequenceFlow id="f366" sourceRef="fork" targetRef="t366" /><bpmn:task id="t367"><bpmn:incoming>f367</bpmn:incoming></bpmn:task><bpmn:sequenceFlow id="f367" sourceRef="fork" targetRef="t367" /><bpmn:task id="t368"><bpmn:incoming>f368</bpmn:incoming></bpmn:task><bpmn:sequenceFlow id="f368" sourceRef="fork" targetRef="t368" /><bpmn:task id="t369"><bpmn:incoming>f369</bpmn:incoming></bpmn:task><bpmn:sequenceFlow id="f369" sourceRef="fork" targetRef="t369" /><bpmn:task id="t370"><bpmn:incoming>f370</bpmn:incoming></bpmn:task><bpmn:sequenceFlow id="f370" sourceRef="fork" targetRef="t370" /><bpmn:task id="t371"><bpmn:incoming>f371</bpmn:incoming></bpmn:task><bpmn:sequenceFlow id="f371" sourceRef="fork" targetRef="t371" /><bpmn:task id="t372"><bpmn:incoming>f372</bpmn:incoming></bpmn:task><bpmn:sequenceFlow id="f372" sourceRef="fork" targetRef="t372" /><bpmn:task id="t373"><bpmn:incoming>f373</bpmn:incoming></bpmn:task><bpmn:sequenceFlow id="f373" sourceRef="fork" targetRef="t373" /><bpmn:task id="t374"><bpmn:incoming>f374</bpmn:incoming></bpmn:task><bpmn:sequenceFlow id="f374" sourceRef="fork" targetRef="t374" /><bpmn:task id="t375"><bpmn:incoming>f375</bpmn:incoming></bpmn:task><bpmn:sequenceFlow id="f375" sourceRef="fork" targetRef="t375" /><bpmn:task id="t376"><bpmn:incoming>f376</bpmn:incoming></bpmn:task><bpmn:sequenceFlow id="f376" sourceRef="fork" targetRef="t376" /><bpmn:task id="t377"><bpmn:incoming>f377</bpmn:incoming></bpmn:task><bpmn:sequenceFlow id="f377" sourceRef="fork" targetRef="t377" /><bpmn:task id="t378"><bpmn:incoming>f378</bpmn:incoming></bpmn:task><bpmn:sequenceFlow id="f378" sourceRef="fork" targetRef="t378" /><bpmn:task id="t379"><bpmn:incoming>f379</bpmn:incoming></bpmn:task><bpmn:sequenceFlow id="f379" sourceRef="fork" targetRef="t379" /><bpmn:task id="t380"><bpmn:incoming>f380</bpmn:incoming></bpmn:task><bpmn:sequenceFlow id="f380" sourceRef="fork" targetRef="t380" /><bpmn:task id="t381"><bpmn:incoming>f381</bpmn:incoming></bpmn:task><bpmn:sequenceFlow id="f381" sourceRef="fork" targetRef="t381" /><bpmn:task id="t382"><bpmn:incoming>f382</bpmn:incoming></bpmn:task><bpmn:sequenceFlow id="f382" sourceRef="fork" targetRef="t382" /><bpmn:task id="t383"><bpmn:incoming>f383</bpmn:incoming></bpmn:task><bpmn:sequenceFlow id="f383" sourceRef="fork" targetRef="t383" /><bpmn:task id="t384"><bpmn:incoming>f384</bpmn:incoming></bpmn:task><bpmn:sequenceFlow id="f384" sourceRef="fork" targetRef="t384" /><bpmn:task id="t385"><bpmn:incoming>f385</bpmn:incoming></bpmn:task><bpmn:sequenceFlow id="f385" sourceRef="fork" targetRef="t385" /><bpmn:task id="t386"><bpmn:incoming>f386</bpmn:incoming></bpmn:task><bpmn:sequenceFlow id="f386" sourceRef="fork" targetRef="t386" /><bpmn:task id="t387"><bpmn:incoming>f387</bpmn:incoming></bpmn:task><bpmn:sequenceFlow id="f387" sourceRef="fork" targetRef="t387" /><bpmn:task id="t388"><bpmn:incoming>f388</bpmn:incoming></bpmn:task><bpmn:sequenceFlow id="f388" sourceRef="fork" targetRef="t388" /><bpmn:task id="t389"><bpmn:incoming>f389</bpmn:incoming></bpmn:task><bpmn:sequenceFlow id="f389" sourceRef="fork" targetRef="t389" /><bpmn:task id="t390"><bpmn:incoming>f390</bpmn:incoming></bpmn:task><bpmn:sequenceFlow id="f390" sourceRef="fork" targetRef="t390" /><bpmn:task id="t391"><bpmn:incoming>f391</bpmn:incoming></bpmn:task><bpmn:sequenceFlow id="f391" sourceRef="fork" targetRef="t391" /><bpmn:task id="t392"><bpmn:incoming>f392</bpmn:incoming></bpmn:task><bpmn:sequenceFlow id="f392" sourceRef="fork" targetRef="t392" /><bpmn:task id="t393"><bpmn:incoming>f393</bpmn:incoming></bpmn:task><bpmn:sequenceFlow id="f393" sourceRef="fork" targetRef="t393" /><bpmn:task id="t394"><bpmn:incoming>f394</bpmn:incoming></bpmn:task><bpmn:sequenceFlow id="f394" sourceRef="fork" targetRef="t394" /><bpmn:task id="t395"><bpmn:incoming>f395</bpmn:incoming></bpmn:task><bpmn:sequenceFlow id="f395" sourceRef="fork" targetRef="t395" /><bpmn:task id="t396"><bpmn:incoming>f396</bpmn:incoming></bpmn:task><bpmn:sequenceFlow id="f396" sourceRef="fork" targetRef="t396" /><bpmn:task id="t397"><bpmn:incoming>f397</bpmn:incoming></bpmn:task><bpmn:sequenceFlow id="f397" sourceRef="fork" targetRef="t397" /><bpmn:task id="t398"><bpmn:incoming>f398</bpmn:incoming></bpmn:task><bpmn:sequenceFlow id="f398" sourceRef="fork" targetRef="t398" /><bpmn:task id="t399"><bpmn:incoming>f399</bpmn:incoming></bpmn:task><bpmn:sequenceFlow id="f399" sourceRef="fork" targetRef="t399" />
  </bpmn:process>
</bpmn:definitions>` + "`" + `

func runCancel(t *testing.T, gw, cond string) {
	var defs schema.Definitions
	src := strings.ReplaceAll(strings.ReplaceAll(igXML, "USEGW", gw), "GWCOND", cond)
	if err := xml.Unmarshal([]byte(src), &defs); err != nil {
		t.Fatal(err)
	}
	ctx, cancel := context.WithCancel(context.Background())
	defer cancel()
	tracer := tracing.NewTracer(ctx)
	traces := tracer.SubscribeChannel(make(chan tracing.ITrace, 65536))
	proc, err := bpmn.NewEngine().NewProcess(&defs, bpmn.WithTracer(tracer), bpmn.WithContext(ctx))
	if err != nil {
		t.Fatal(err)
	}
	if err := proc.StartAll(ctx); err != nil {
		t.Fatal(err)
	}
	pending := 0
	deadline := time.After(5 * time.Second)
	for pending < 400 {
		select {
		case tr := <-traces:
			if _, ok := tracing.Unwrap(tr).(bpmn.TaskTrace); ok {
				pending++
			}
		case <-deadline:
			t.Fatalf("only %d tasks pending", pending)
		}
	}
	go func() { for range traces {} }()
	time.Sleep(100 * time.Millisecond)
	cancel()
	select {
	case <-tracer.Done():
	case <-time.After(5 * time.Second):
		t.Fatalf("%s: the tracer did not terminate within 5s of the cancellation", gw)
	}
}

func TestGocvReplay(t *testing.T) {
	runCancel(t, "inclusiveGateway", ` + "`" + `<bpmn:conditionExpression xsi:type="bpmn:tFormalExpression" language="https://github.com/expr-lang/expr">true</bpmn:conditionExpression>` + "`" + `)
}
`

// ---------------------------------------------------------------------------
// driver: (*flowTracker).run (C07) — the tracer closes its subscribers' channels when it terminates; the tracker of an
// inclusive gateway that no token has reached (its shutdown is only ever called by the gateway's own loop) keeps
// receiving from the closed channel: one goroutine at 100% CPU for ever.

func init() {
	registerReplay(replayDriver{
		modelFree: true,
		name:      "bpmn inclusive gateway never reached: cancellation, then CPU time",
		match: func(ob *Oblig) bool {
			return strings.HasPrefix(ob.Func, "bpmn.(*flowTracker).run") && strings.Contains(ob.Name, "closed-subscription-does-not-keep-the-tracker-turning")
		},
		build: func(ob *Oblig, m map[string]string) (string, string, bool) {
			return ".", "// generated by gocv for obligation " + ob.Name + "\n" + trackerSpinTest, true
		},
	})
}

const trackerSpinTest = `package bpmn_test

import (
	"context"
	"encoding/xml"
	"syscall"
	"testing"
	"time"

	"github.com/olive-io/bpmn/schema"
	"github.com/olive-io/bpmn/v2"
	"github.com/olive-io/bpmn/v2/pkg/tracing"
)

const spinXML = ` + "`" + `<?xml version="1.0" encoding="UTF-8"?>
<bpmn:definitions xmlns:bpmn="http://www.omg.org/spec/BPMN/20100524/MODEL" xmlns:xsi="http://www.w3.org/2001/XMLSchema-instance" id="D" targetNamespace="http://bpmn.io/schema/bpmn">
  <bpmn:process id="P" isExecutable="true">
    <bpmn:startEvent id="s"><bpmn:outgoing>f0</bpmn:outgoing></bpmn:startEvent>
    <bpmn:task id="t"><bpmn:incoming>f0</bpmn:incoming><bpmn:outgoing>f1</bpmn:outgoing></bpmn:task>
    <bpmn:GW id="ig"><bpmn:incoming>f1</bpmn:incoming><bpmn:outgoing>f2</bpmn:outgoing></bpmn:GW>
    <bpmn:endEvent id="e"><bpmn:incoming>f2</bpmn:incoming></bpmn:endEvent>
    <bpmn:sequenceFlow id="f0" sourceRef="s" targetRef="t" />
    <bpmn:sequenceFlow id="f1" sourceRef="t" targetRef="ig" />
    <bpmn:sequenceFlow id="f2" sourceRef="ig" targetRef="e" />
  </bpmn:process>
</bpmn:definitions>` + "`" + `

func cpu() time.Duration {
	var ru syscall.Rusage
	syscall.Getrusage(syscall.RUSAGE_SELF, &ru)
	return time.Duration(ru.Utime.Nano() + ru.Stime.Nano())
}

func runSpin(t *testing.T, gw string) time.Duration {
	var defs schema.Definitions
	src := []byte(spinXML)
	src = []byte(string(src))
	s := string(src)
	for _, r := range [][2]string{{"bpmn:GW", "bpmn:" + gw}} {
		for i := 0; i < 2; i++ {
			s = replaceOnce(s, r[0], r[1])
		}
	}
	if err := xml.Unmarshal([]byte(s), &defs); err != nil {
		t.Fatal(err)
	}
	ctx, cancel := context.WithCancel(context.Background())
	tracer := tracing.NewTracer(ctx)
	traces := tracer.SubscribeChannel(make(chan tracing.ITrace, 1024))
	proc, err := bpmn.NewEngine().NewProcess(&defs, bpmn.WithTracer(tracer), bpmn.WithContext(ctx))
	if err != nil {
		t.Fatal(err)
	}
	if err := proc.StartAll(ctx); err != nil {
		t.Fatal(err)
	}
	deadline := time.After(5 * time.Second)
	for pending := false; !pending; {
		select {
		case tr := <-traces:
			_, pending = tracing.Unwrap(tr).(bpmn.TaskTrace)
		case <-deadline:
			t.Fatal("task not requested")
		}
	}
	go func() {
		for range traces {
		}
	}()
	cancel() // the gateway behind the pending task was never reached
	select {
	case <-tracer.Done():
	case <-time.After(5 * time.Second):
		t.Fatal("tracer did not terminate")
	}
	time.Sleep(200 * time.Millisecond)
	before := cpu()
	time.Sleep(500 * time.Millisecond)
	return cpu() - before
}

func replaceOnce(s, a, b string) string {
	for i := 0; i+len(a) <= len(s); i++ {
		if s[i:i+len(a)] == a {
			return s[:i] + b + s[i+len(a):]
		}
	}
	return s
}

func TestGocvReplay(t *testing.T) {
	d := runSpin(t, "inclusiveGateway")
	t.Logf("cpu used in 500ms after everything ended: %v", d)
	if d > 100*time.Millisecond {
		t.Fatalf("something keeps spinning: %v of CPU in 500ms", d)
	}
}
`

// ---------------------------------------------------------------------------
// driver: (*taskTrace).Do (C08) — further or concurrent answers must return without blocking: three goroutines answer
// the same request at once, on 1500 fresh instances; a caller that passed the "already decided?" test before the
// request was decided and finds the one-slot forward buffer full blocks for ever (nobody reads it again).

func init() {
	registerReplay(replayDriver{
		modelFree: true,
		name:      "bpmn task request answered by three goroutines at once",
		match: func(ob *Oblig) bool {
			return strings.HasPrefix(ob.Func, "bpmn.(*taskTrace).Do") && ob.Class == "blocking"
		},
		build: func(ob *Oblig, m map[string]string) (string, string, bool) {
			return ".", "// generated by gocv for obligation " + ob.Name + "\n" + tripleAnswerTest, true
		},
	})
}

const tripleAnswerTest = `package bpmn_test

import (
	"context"
	"sync"
	"sync/atomic"
	"testing"
	"time"

	"github.com/olive-io/bpmn/schema"
	"github.com/olive-io/bpmn/v2"
	"github.com/olive-io/bpmn/v2/pkg/tracing"
)

func TestGocvReplay(t *testing.T) {
	var testDoc schema.Definitions
	LoadTestFile("testdata/task.bpmn", &testDoc)
	var stuck atomic.Int32
	for round := 0; round < 1500; round++ {
		ctx, cancel := context.WithCancel(context.Background())
		proc, err := bpmn.NewEngine().NewProcess(&testDoc, bpmn.WithContext(ctx))
		if err != nil {
			t.Fatal(err)
		}
		traces := proc.Tracer().SubscribeChannel(make(chan tracing.ITrace, 256))
		if err := proc.StartAll(ctx); err != nil {
			t.Fatal(err)
		}
		var req bpmn.TaskTrace
		deadline := time.After(3 * time.Second)
		for req == nil {
			select {
			case tr := <-traces:
				if tt, ok := tracing.Unwrap(tr).(bpmn.TaskTrace); ok {
					req = tt
				}
			case <-deadline:
				t.Fatal("no task request")
			}
		}
		go func() {
			for range traces {
			}
		}()
		var wg sync.WaitGroup
		returned := make(chan struct{}, 3)
		start := make(chan struct{})
		for i := 0; i < 3; i++ {
			wg.Add(1)
			go func() {
				defer wg.Done()
				<-start
				req.Do()
				returned <- struct{}{}
			}()
		}
		close(start)
		done := make(chan struct{})
		go func() { wg.Wait(); close(done) }()
		select {
		case <-done:
		case <-time.After(300 * time.Millisecond):
			stuck.Add(int32(3 - len(returned)))
		}
		cancel()
	}
	if n := stuck.Load(); n > 0 {
		t.Fatalf("%d of 4500 concurrent Do calls never returned", n)
	}
}
`

// ---------------------------------------------------------------------------
// drivers: (*startEvent).ConsumeEvent / (*throwEvent).ConsumeEvent (C11) — the twins of the catch event's delivery
// block: the node's loop is started by its first trigger or token only, its inbox has one slot (no incoming flows).

func init() {
	for _, kind := range []string{"startEvent", "throwEvent"} {
		kind := kind
		registerReplay(replayDriver{
			modelFree: true,
			name:      "bpmn." + kind + ".ConsumeEvent on a node that was never triggered",
			match: func(ob *Oblig) bool {
				return ob.Class == "blocking" && strings.HasPrefix(ob.Func, "bpmn.(*"+kind+").ConsumeEvent")
			},
			build: func(ob *Oblig, m map[string]string) (string, string, bool) {
				ctor := "newStartEvent(&wiring{eventEgress: gocvReplaySource{}}, &schema.StartEvent{}, nil)"
				if kind == "throwEvent" {
					ctor = "newThrowEvent(&wiring{eventEgress: gocvReplaySource{}}, &schema.ThrowEvent{}, nil)"
				}
				src := fmt.Sprintf(`package bpmn

import (
	"testing"
	"time"

	"github.com/olive-io/bpmn/schema"
	"github.com/olive-io/bpmn/v2/pkg/event"
)

type gocvReplaySource struct{}

func (gocvReplaySource) RegisterEventConsumer(event.IConsumer) error { return nil }

// generated by gocv for obligation %s
func TestGocvReplay(t *testing.T) {
	evt, err := %s
	if err != nil {
		t.Fatal(err)
	}
	// the node has not been triggered or reached: its goroutine is not running
	for i := 1; i <= 4; i++ {
		done := make(chan struct{})
		go func() {
			evt.ConsumeEvent(event.NewSignalEvent("s"))
			close(done)
		}()
		select {
		case <-done:
		case <-time.After(time.Second):
			t.Fatalf("delivery number %%d to a %s that was never triggered did not return within a second", i)
		}
	}
}
`, ob.Name, ctor, kind)
				return ".", src, true
			},
		})
	}
}

// ---------------------------------------------------------------------------
// driver: NewFallbackGenerator (C20) — generators created at the same instant must still differ: eight goroutines create
// 20000 generators each and the first identifier of every generator must be new.

func init() {
	registerReplay(replayDriver{
		modelFree: true,
		name:      "pkg/id: fallback generators created concurrently",
		match: func(ob *Oblig) bool {
			return strings.HasPrefix(ob.Func, "pkg/id.NewFallbackGenerator") && strings.Contains(ob.Name, "draws-its-own-number")
		},
		build: func(ob *Oblig, m map[string]string) (string, string, bool) {
			return "pkg/id", "// generated by gocv for obligation " + ob.Name + "\n" + fallbackPrefixTest, true
		},
	})
}

const fallbackPrefixTest = `package id

import (
	"sync"
	"testing"
)

func TestGocvReplay(t *testing.T) {
	const G, N = 8, 20000
	firsts := make([][]string, G)
	var wg sync.WaitGroup
	for g := 0; g < G; g++ {
		wg.Add(1)
		go func(g int) {
			defer wg.Done()
			r := make([]string, N)
			for i := range r {
				r[i] = NewFallbackGenerator().New().String()
			}
			firsts[g] = r
		}(g)
	}
	wg.Wait()
	seen := map[string]int{}
	dups := 0
	for _, r := range firsts {
		for _, s := range r {
			seen[s]++
			if seen[s] == 2 {
				dups++
			}
		}
	}
	if dups > 0 {
		t.Fatalf("%d of %d generators created by %d goroutines issued a first identifier that another generator had issued", dups, G*N, G)
	}
}
`

// ---------------------------------------------------------------------------
// driver: dateTimeTimer / recurringTimer (C13) — a timer whose context is already cancelled when the clock reaches its
// due time: both alternatives of its select are ready, Go picks one at random.  Sixty timers are created, cancelled,
// and only then overtaken by the (mock) clock; none may fire.

func init() {
	registerReplay(replayDriver{
		modelFree: true,
		name:      "pkg/timer: clock passes the due time of a cancelled timer",
		match: func(ob *Oblig) bool {
			return strings.HasPrefix(ob.Func, "pkg/timer.") && strings.Contains(ob.Name, "already-cancelled-never-fires")
		},
		build: func(ob *Oblig, m map[string]string) (string, string, bool) {
			return "pkg/timer", "// generated by gocv for obligation " + ob.Name + "\n" + timerAfterCancelTest, true
		},
	})
}

const timerAfterCancelTest = `package timer

import (
	"bytes"
	"context"
	"encoding/xml"
	"runtime"
	"testing"
	"time"

	"github.com/olive-io/bpmn/schema"
	"github.com/olive-io/bpmn/v2/pkg/clock"
)

// A timer whose context was cancelled before the clock reached its due time must never fire.
func TestGocvReplay(t *testing.T) {
	defer runtime.GOMAXPROCS(runtime.GOMAXPROCS(1))
	fired := 0
	const rounds = 60
	for i := 0; i < rounds; i++ {
		c := clock.NewMock()
		definition := schema.DefaultTimerEventDefinition()
		duration := schema.AnExpression{}
		if err := xml.NewDecoder(bytes.NewBufferString(` + "`" + `<bpmn:expression>PT30M</bpmn:expression>` + "`" + `)).Decode(&duration); err != nil {
			t.Fatal(err)
		}
		definition.SetTimeDuration(&duration)
		ctx, cancel := context.WithCancel(context.Background())
		ch, err := New(ctx, c, definition)
		if err != nil {
			t.Fatal(err)
		}
		cancel()                         // cancellation has returned ...
		c.Add(31 * time.Minute)          // ... before the clock passes the due time
		select {
		case _, ok := <-ch:
			if ok {
				fired++
			}
		case <-time.After(30 * time.Millisecond):
		}
	}
	if fired > 0 {
		t.Fatalf("%d of %d timers fired although their context had been cancelled before the clock reached the due time", fired, rounds)
	}
}
`
