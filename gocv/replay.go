package main

// Replay of solver models against the real code.
//
// A replay driver turns the model of a refuted obligation into a Go test that is compiled into the function's
// own package through `go test -overlay` (nothing is written to the repository) and fails iff the real code
// violates the clause (panics, or the observed behaviour contradicts it).

import (
	"encoding/json"
	"fmt"
	"os"
	"os/exec"
	"path/filepath"
	"regexp"
	"strconv"
	"strings"
	"time"
)

type replayDriver struct {
	// modelFree: the failing scenario does not depend on solver-chosen inputs (a fixed history fails), so the replay
	// can run even when the solver gave no model (timeout / unknown on a quantified goal)
	modelFree bool
	name      string
	match     func(ob *Oblig) bool
	// extra terms to read from the model (besides the function's inputs)
	terms func(ob *Oblig) []ModelVar
	// build returns the package directory (relative to the repo) and the test source
	build func(ob *Oblig, m map[string]string) (dir string, src string, ok bool)
}

var replayDrivers []replayDriver

func registerReplay(d replayDriver) { replayDrivers = append(replayDrivers, d) }

func modelFreeDriver(ob *Oblig) bool {
	d := driverFor(ob)
	return d != nil && d.modelFree
}

func driverFor(ob *Oblig) *replayDriver {
	for i := range replayDrivers {
		if replayDrivers[i].match(ob) {
			return &replayDrivers[i]
		}
	}
	return nil
}

// addReplayTerms extends the obligation's model request with the driver's terms.
func addReplayTerms(ob *Oblig) {
	if d := driverFor(ob); d != nil && d.terms != nil {
		ob.Inputs = append(append([]ModelVar(nil), ob.Inputs...), d.terms(ob)...)
	}
}

func replayModel(o options, w *World, ob *Oblig, model map[string]string) (bool, string) {
	d := driverFor(ob)
	if d == nil {
		return false, ""
	}
	dir, src, ok := d.build(ob, model)
	if !ok {
		return false, "replay driver " + d.name + ": model not replayable"
	}
	failed, out := runReplayTest(o, dir, src)
	return failed, "driver " + d.name + "\n--- test source\n" + src + "\n--- go test output\n" + out
}

// runReplayTest compiles the test into the package with -overlay and reports whether it FAILED.
func runReplayTest(o options, dir, src string) (bool, string) {
	tmp, err := os.MkdirTemp("", "gocv-replay-")
	if err != nil {
		return false, err.Error()
	}
	defer os.RemoveAll(tmp)
	testFile := filepath.Join(tmp, "gocv_replay_test.go")
	if err := os.WriteFile(testFile, []byte(src), 0o644); err != nil {
		return false, err.Error()
	}
	pkgDir := filepath.Join(o.repo, dir)
	ov := map[string]any{"Replace": map[string]string{filepath.Join(pkgDir, "gocv_replay_test.go"): testFile}}
	b, _ := json.Marshal(ov)
	ovFile := filepath.Join(tmp, "overlay.json")
	os.WriteFile(ovFile, b, 0o644)
	cmd := exec.Command("go", "test", "-overlay", ovFile, "-vet=off", "-count=1", "-timeout", "60s", "-run", "^TestGocvReplay$", ".")
	cmd.Dir = pkgDir
	env := []string{}
	for _, e := range os.Environ() {
		if strings.HasPrefix(e, "GOFLAGS=") || strings.HasPrefix(e, "GOWORK=") {
			continue
		}
		env = append(env, e)
	}
	// scratch copies have no go.work: fall back to module mode with the repository's own go.sum
	if _, err := os.Stat(filepath.Join(o.repo, "go.work")); err != nil {
		env = append(env, "GOFLAGS=-mod=mod", "GOWORK=off")
	}
	env = append(env, "GOPROXY=off", "GOSUMDB=off", "GOTOOLCHAIN=local", "GOMAXPROCS=4")
	cmd.Env = env
	done := make(chan struct{})
	var out []byte
	go func() { out, err = cmd.CombinedOutput(); close(done) }()
	select {
	case <-done:
	case <-time.After(120 * time.Second):
		cmd.Process.Kill()
		return false, "replay timed out"
	}
	s := string(out)
	if strings.Contains(s, "[build failed]") || strings.Contains(s, "[setup failed]") || strings.Contains(s, "no test files") {
		return false, "replay test did not build:\n" + truncate(s, 3000)
	}
	failed := err != nil && (strings.Contains(s, "--- FAIL") || strings.Contains(s, "panic:") || strings.Contains(s, "FAIL"))
	return failed, truncate(s, 4000)
}

// ---------------------------------------------------------------------------
// helpers for reading model values

var negInt = regexp.MustCompile(`^\(-\s*(\d+)\)$`)

func modelInt(s string) (int64, bool) {
	s = strings.TrimSpace(s)
	if m := negInt.FindStringSubmatch(s); m != nil {
		n, err := strconv.ParseInt(m[1], 10, 64)
		return -n, err == nil
	}
	n, err := strconv.ParseInt(s, 10, 64)
	return n, err == nil
}

// modelStr maps a Str-sorted model value back to a literal of the context when it is one
// (the literals' own model values are requested as "lit:<text>").
func modelStr(c *Ctx, m map[string]string, s string) (string, bool) {
	for lit, name := range c.strLits {
		if name == s || m["lit:"+lit] == s {
			return lit, true
		}
	}
	return "", false
}

func strLitTerms(c *Ctx) []ModelVar {
	var out []ModelVar
	for _, lit := range sortedKeys(c.strLits) {
		out = append(out, ModelVar{Name: "lit:" + lit, Term: c.strLits[lit]})
	}
	return out
}

func ptrSample(k int64) (string, bool) {
	s, ok := kindSamples[k]
	if !ok || k == 0 {
		return "", false
	}
	return "func() any { x := " + s + "; return &x }()", true
}

func (ob *Oblig) inputTerm(name string) string {
	for _, in := range ob.ctx.inputs {
		if in.Name == name {
			return in.Term
		}
	}
	return ""
}

// ---------------------------------------------------------------------------
// driver: schema.(*Value).ValueFrom / schema.NewValue — panic obligations (C16)

var kindSamples = map[int64]string{
	0: "nil", 1: "true", 2: "int(-5)", 3: "int8(-5)", 4: "int16(-5)", 5: "int32(-5)", 6: "int64(-5)",
	7: "uint(5)", 8: "uint8(5)", 9: "uint16(5)", 10: "uint32(5)", 11: "uint64(5)", 12: "uintptr(5)",
	13: "float32(1.5)", 14: "float64(1.5)", 15: "complex64(1)", 16: "complex128(1)",
	17: "[2]int{1, 2}", 18: "make(chan int)", 19: "func() {}", 21: "map[string]any{\"a\": 1}",
	22: "&struct{ A int }{1}", 23: "[]any{1, \"a\"}", 24: "replayNamedString(\"[1]\")", 25: "struct{ A int }{1}", 26: "unsafe.Pointer(nil)",
}

func init() {
	registerReplay(replayDriver{
		name: "schema.Value.ValueFrom",
		match: func(ob *Oblig) bool {
			return ob.Class == "panic" && (strings.HasPrefix(ob.Func, "schema.(*Value).ValueFrom") || strings.HasPrefix(ob.Func, "schema.NewValue"))
		},
		terms: func(ob *Oblig) []ModelVar {
			c := ob.ctx
			var out []ModelVar
			if v := ob.inputTerm("value"); v != "" && c.declared["sf_kindOfDyn"] {
				out = append(out, ModelVar{Name: "kind(value)", Term: "(sf_kindOfDyn (i_tag " + v + "))"}, ModelVar{Name: "tag(value)", Term: "(i_tag " + v + ")"})
			}
			if v := ob.inputTerm("value"); v != "" && c.declared["pf_reflect_Value.Elem_0"] && c.declared["pf_reflect_ValueOf_0"] {
				out = append(out, ModelVar{Name: "kind(*value)", Term: "(sf_vkind (pf_reflect_Value.Elem_0 (pf_reflect_ValueOf_0 " + v + ")))"})
			}
			if iv := ob.inputTerm("iv"); iv != "" {
				if _, ok := c.heapSorts()["F:schema.Value.ItemType"]; ok {
					out = append(out, ModelVar{Name: "iv.ItemType", Term: "(select H_F_schema.Value.ItemType_e0 " + iv + ")"})
				}
			}
			return append(out, strLitTerms(c)...)
		},
		build: func(ob *Oblig, m map[string]string) (string, string, bool) {
			c := ob.ctx
			sample := "nil"
			if tg, ok := modelInt(m["tag(value)"]); ok && tg != 0 {
				k, ok := modelInt(m["kind(value)"])
				if !ok {
					return "", "", false
				}
				s, ok := kindSamples[k]
				if !ok {
					return "", "", false
				}
				sample = s
				if k == 22 {
					if ek, ok := modelInt(m["kind(*value)"]); ok {
						if ps, ok := ptrSample(ek); ok {
							sample = ps
						}
					}
				}
				// the model's dynamic type may be exactly `string` (tag of the basic type)
				if k == 24 && tg == int64(c.tags["string"]) {
					sample = `"[1]"`
				}
			}
			itemType := ""
			if s, ok := m["iv.ItemType"]; ok {
				if lit, ok := modelStr(c, m, s); ok {
					itemType = lit
				} else {
					itemType = "unlisted-type"
				}
			}
			call := fmt.Sprintf("v := &Value{ItemType: ItemType(%q)}\n\tv.ValueFrom(arg)", itemType)
			if strings.HasPrefix(ob.Func, "schema.NewValue") {
				call = "_ = NewValue(arg)"
			}
			src := fmt.Sprintf(`package schema

import (
	"testing"
	"unsafe"
)

type replayNamedString string

var _ = unsafe.Pointer(nil)

// generated by gocv from the model of obligation %s
func TestGocvReplay(t *testing.T) {
	var arg any = %s
	defer func() {
		if r := recover(); r != nil {
			t.Fatalf("real code panicked: %%v", r)
		}
	}()
	%s
}
`, ob.Name, sample, call)
			return "schema", src, true
		},
	})
}

// ---------------------------------------------------------------------------
// driver: (*ProcessSet).WaitUntilComplete — close of the completion channel (C18).  The model has no input to speak
// of: the obligation fails for any process set, so the replay waits twice on an empty one.

func init() {
	registerReplay(replayDriver{
		modelFree: true,
		name:      "bpmn.ProcessSet.WaitUntilComplete twice",
		match: func(ob *Oblig) bool {
			return ob.Class == "chan-close-once" && strings.HasPrefix(ob.Func, "bpmn.(*ProcessSet).WaitUntilComplete")
		},
		build: func(ob *Oblig, m map[string]string) (string, string, bool) {
			src := fmt.Sprintf(`package bpmn

import (
	"context"
	"testing"
	"time"

	"github.com/olive-io/bpmn/schema"
)

// generated by gocv for obligation %s
func TestGocvReplay(t *testing.T) {
	defs := &schema.Definitions{}
	ps, err := NewProcessSet(nil, nil, defs)
	if err != nil {
		t.Fatal(err)
	}
	ctx, cancel := context.WithTimeout(context.Background(), 2*time.Second)
	defer cancel()
	if err := ps.StartAll(ctx); err != nil {
		t.Fatal(err)
	}
	// a second wait must not crash the program (the helper goroutine's panic is not recoverable here)
	ps.WaitUntilComplete(ctx)
	ps.WaitUntilComplete(ctx)
	time.Sleep(200 * time.Millisecond)
}
`, ob.Name)
			return ".", src, true
		},
	})
}

// ---------------------------------------------------------------------------
// driver: (*genericTask).run — a cancel message while a request is pending (C10).  The failing step is "cancel
// message received, loop continues": the replay puts a real generic task into that state (one request pending) and
// asks it to cancel.

func init() {
	registerReplay(replayDriver{
		modelFree: true,
		name:      "bpmn.genericTask cancel with a pending request",
		match: func(ob *Oblig) bool {
			return strings.HasPrefix(ob.Func, "bpmn.(*genericTask).run") && strings.Contains(ob.Name, "interrupt-cancels-a-pending-request")
		},
		build: func(ob *Oblig, m map[string]string) (string, string, bool) {
			src := fmt.Sprintf(`package bpmn

import (
	"context"
	"testing"
	"time"

	"github.com/olive-io/bpmn/schema"
	"github.com/olive-io/bpmn/v2/pkg/data"
	"github.com/olive-io/bpmn/v2/pkg/tracing"
)

// generated by gocv for obligation %s
func TestGocvReplay(t *testing.T) {
	ctx, stop := context.WithCancel(context.Background())
	defer stop()
	tracer := tracing.NewTracer(ctx)
	traces := tracer.SubscribeChannel(make(chan tracing.ITrace, 16))
	element := &schema.Task{}
	act, err := newTask(element, TaskActivity)(&wiring{tracer: tracer, locator: data.NewFlowDataLocator()})
	if err != nil {
		t.Fatal(err)
	}
	task := act.(*genericTask)
	task.NextAction(ctx, nil)
	// wait until the request is pending: its TaskTrace has been sent and nobody answers it
	deadline := time.After(2 * time.Second)
	for pending := false; !pending; {
		select {
		case tr := <-traces:
			_, pending = tracing.Unwrap(tr).(TaskTrace)
		case <-deadline:
			t.Fatal("no task request observed")
		}
	}
	time.Sleep(20 * time.Millisecond)
	answer := task.Cancel()
	select {
	case ok := <-answer:
		if !ok {
			t.Fatalf("an activity with a pending request refused to be cancelled: an interrupting boundary event cannot stop its normal flow")
		}
	case <-time.After(2 * time.Second):
		t.Fatal("no answer to the cancel request")
	}
}
`, ob.Name)
			return ".", src, true
		},
	})
}

// ---------------------------------------------------------------------------
// driver: (*catchEvent).ConsumeEvent — delivery to a catch event whose node has not been reached (C11): nobody reads
// its inbox yet, so delivery blocks once the inbox (2*incoming+1 slots) is full.

func init() {
	registerReplay(replayDriver{
		modelFree: true,
		name:      "bpmn.catchEvent.ConsumeEvent on a node not yet reached",
		match: func(ob *Oblig) bool {
			return ob.Class == "blocking" && strings.HasPrefix(ob.Func, "bpmn.(*catchEvent).ConsumeEvent")
		},
		build: func(ob *Oblig, m map[string]string) (string, string, bool) {
			src := fmt.Sprintf(`package bpmn

import (
	"testing"
	"time"

	"github.com/olive-io/bpmn/schema"
	"github.com/olive-io/bpmn/v2/pkg/event"
)

type gocvReplaySource struct{}

func (gocvReplaySource) RegisterEventConsumer(event.IConsumer) error { return nil }

// generated by gocv for obligation %s
func TestGocvReplay(t *testing.T) {
	evt, err := newCatchEvent(&wiring{eventEgress: gocvReplaySource{}}, &schema.CatchEvent{})
	if err != nil {
		t.Fatal(err)
	}
	// the node has not been reached by any token: its goroutine is not running
	for i := 1; i <= 4; i++ {
		done := make(chan struct{})
		go func() {
			evt.ConsumeEvent(event.NewSignalEvent("s"))
			close(done)
		}()
		select {
		case <-done:
		case <-time.After(time.Second):
			t.Fatalf("delivery number %%d to a catch event that is not listening did not return within a second", i)
		}
	}
}
`, ob.Name)
			return ".", src, true
		},
	})
}

// ---------------------------------------------------------------------------
// driver: (*Process).WaitUntilComplete — a waiter whose context has expired strands the helper goroutine while it
// holds the completion lock (C02): every later wait then reports "not complete".

func init() {
	registerReplay(replayDriver{
		modelFree: true,
		name:      "bpmn.Process.WaitUntilComplete after an expired wait",
		match: func(ob *Oblig) bool {
			return (ob.Class == "blocking" || ob.Class == "closure-inv") && strings.HasPrefix(ob.Func, "bpmn.(*Process).WaitUntilComplete")
		},
		build: func(ob *Oblig, m map[string]string) (string, string, bool) {
			src := fmt.Sprintf(`package bpmn

import (
	"context"
	"encoding/xml"
	"os"
	"testing"
	"time"

	"github.com/olive-io/bpmn/schema"
)

// generated by gocv for obligation %s
func TestGocvReplay(t *testing.T) {
	src, err := os.ReadFile("testdata/start.bpmn")
	if err != nil {
		t.Fatal(err)
	}
	var defs schema.Definitions
	if err := xml.Unmarshal(src, &defs); err != nil {
		t.Fatal(err)
	}
	proc, err := NewEngine().NewProcess(&defs)
	if err != nil {
		t.Fatal(err)
	}
	ctx := context.Background()
	if err := proc.StartAll(ctx); err != nil {
		t.Fatal(err)
	}
	live, stop := context.WithTimeout(ctx, 5*time.Second)
	defer stop()
	if !proc.WaitUntilComplete(live) {
		t.Fatal("start -> end did not complete")
	}
	expired, cancel := context.WithCancel(ctx)
	cancel()
	for i := 0; i < 50; i++ {
		proc.WaitUntilComplete(expired) // may return either answer: both alternatives are ready
		again, stop := context.WithTimeout(ctx, time.Second)
		ok := proc.WaitUntilComplete(again)
		stop()
		if !ok {
			t.Fatalf("after %%d waits with an expired context, a completed instance is reported as not complete", i+1)
		}
	}
}
`, ob.Name)
			return ".", src, true
		},
	})
}

// ---------------------------------------------------------------------------
// driver: (*Process).StartAll — a process with two start events (C02): the second StartWith needs the completion
// lock that the first one's monitor keeps until the instance completes.

func init() {
	registerReplay(replayDriver{
		modelFree: true,
		name:      "bpmn.Process.StartAll with two start events",
		match: func(ob *Oblig) bool {
			return (strings.HasPrefix(ob.Func, "bpmn.(*Process).StartAll") || strings.HasPrefix(ob.Func, "bpmn.(*Process).StartWith")) &&
				(strings.Contains(ob.Name, "completion-lock") || strings.Contains(ob.Name, "monitor"))
		},
		build: func(ob *Oblig, m map[string]string) (string, string, bool) {
			src := fmt.Sprintf(`package bpmn

import (
	"context"
	"encoding/xml"
	"testing"
	"time"

	"github.com/olive-io/bpmn/schema"
)

const gocvTwoStarts = %s

// generated by gocv for obligation %s
func TestGocvReplay(t *testing.T) {
	var defs schema.Definitions
	if err := xml.Unmarshal([]byte(gocvTwoStarts), &defs); err != nil {
		t.Fatal(err)
	}
	proc, err := NewEngine().NewProcess(&defs)
	if err != nil {
		t.Fatal(err)
	}
	ctx, cancel := context.WithTimeout(context.Background(), 5*time.Second)
	defer cancel()
	started := make(chan error, 1)
	go func() { started <- proc.StartAll(ctx) }()
	select {
	case err := <-started:
		if err != nil {
			t.Fatal(err)
		}
	case <-time.After(2 * time.Second):
		t.Fatal("StartAll of a process with two start events did not return within two seconds")
	}
	if !proc.WaitUntilComplete(ctx) {
		t.Fatal("the instance with two start events did not complete")
	}
}
`, "`"+twoStartsXML+"`", ob.Name)
			return ".", src, true
		},
	})
}

const twoStartsXML = `<?xml version="1.0" encoding="UTF-8"?>
<bpmn:definitions xmlns:bpmn="http://www.omg.org/spec/BPMN/20100524/MODEL" id="Definitions_two" targetNamespace="http://bpmn.io/schema/bpmn">
  <bpmn:process id="Process_two" isExecutable="true">
    <bpmn:startEvent id="s1"><bpmn:outgoing>f1</bpmn:outgoing></bpmn:startEvent>
    <bpmn:startEvent id="s2"><bpmn:outgoing>f2</bpmn:outgoing></bpmn:startEvent>
    <bpmn:endEvent id="e1"><bpmn:incoming>f1</bpmn:incoming></bpmn:endEvent>
    <bpmn:endEvent id="e2"><bpmn:incoming>f2</bpmn:incoming></bpmn:endEvent>
    <bpmn:sequenceFlow id="f1" sourceRef="s1" targetRef="e1" />
    <bpmn:sequenceFlow id="f2" sourceRef="s2" targetRef="e2" />
  </bpmn:process>
</bpmn:definitions>`

// ---------------------------------------------------------------------------
// driver: (*subProcess).NextAction — the inner completion monitor listens on the wrong tracer (C12): the parent's
// token never continues past an embedded sub-process, the enclosing instance never completes.

func init() {
	registerReplay(replayDriver{
		modelFree: true,
		name:      "bpmn embedded sub-process: the enclosing instance completes",
		match: func(ob *Oblig) bool {
			return strings.HasPrefix(ob.Func, "bpmn.(*subProcess).NextAction") && strings.Contains(ob.Name, "inner-completion-is-watched")
		},
		build: func(ob *Oblig, m map[string]string) (string, string, bool) {
			src := fmt.Sprintf(`package bpmn

import (
	"context"
	"encoding/xml"
	"os"
	"testing"
	"time"

	"github.com/olive-io/bpmn/schema"
	"github.com/olive-io/bpmn/v2/pkg/tracing"
)

// generated by gocv for obligation %s
func TestGocvReplay(t *testing.T) {
	src, err := os.ReadFile("testdata/subprocess.bpmn")
	if err != nil {
		t.Fatal(err)
	}
	var defs schema.Definitions
	if err := xml.Unmarshal(src, &defs); err != nil {
		t.Fatal(err)
	}
	proc, err := NewEngine().NewProcess(&defs)
	if err != nil {
		t.Fatal(err)
	}
	ctx, cancel := context.WithTimeout(context.Background(), 4*time.Second)
	defer cancel()
	traces := proc.Tracer().SubscribeChannel(make(chan tracing.ITrace, 64))
	if err := proc.StartAll(ctx); err != nil {
		t.Fatal(err)
	}
	go func() {
		for tr := range traces {
			if tt, ok := tracing.Unwrap(tr).(TaskTrace); ok {
				tt.Do()
			}
		}
	}()
	if !proc.WaitUntilComplete(ctx) {
		t.Fatal("the instance containing an embedded sub-process did not complete within four seconds: the parent's token never continued past the sub-process")
	}
}
`, ob.Name)
			return ".", src, true
		},
	})
}

// ---------------------------------------------------------------------------
// driver: (*subProcess).NextAction — the same embedded sub-process entered a second time (C12): only the first entry
// starts an inner completion monitor.

func init() {
	registerReplay(replayDriver{
		modelFree: true,
		name:      "bpmn embedded sub-process entered twice in sequence",
		match: func(ob *Oblig) bool {
			return strings.HasPrefix(ob.Func, "bpmn.(*subProcess).NextAction") && strings.Contains(ob.Name, "each-entry-gets-its-own")
		},
		build: func(ob *Oblig, m map[string]string) (string, string, bool) {
			return ".", "// generated by gocv for obligation " + ob.Name + "\n" + subprocessTwiceTest, true
		},
	})
}

const subprocessTwiceTest = `package bpmn

import (
	"context"
	"encoding/xml"
	"sync/atomic"
	"testing"
	"time"

	"github.com/olive-io/bpmn/schema"
	"github.com/olive-io/bpmn/v2/pkg/tracing"
)

const reentryXML = ` + "`" + `<?xml version="1.0" encoding="UTF-8"?>
<bpmn:definitions xmlns:bpmn="http://www.omg.org/spec/BPMN/20100524/MODEL" id="D" targetNamespace="http://bpmn.io/schema/bpmn">
  <bpmn:process id="P" isExecutable="true">
    <bpmn:startEvent id="s"><bpmn:outgoing>f0</bpmn:outgoing></bpmn:startEvent>
    <bpmn:parallelGateway id="fork"><bpmn:incoming>f0</bpmn:incoming><bpmn:outgoing>fa</bpmn:outgoing><bpmn:outgoing>fb</bpmn:outgoing></bpmn:parallelGateway>
    <bpmn:task id="a"><bpmn:incoming>fa</bpmn:incoming><bpmn:outgoing>ma</bpmn:outgoing></bpmn:task>
    <bpmn:task id="b"><bpmn:incoming>fb</bpmn:incoming><bpmn:outgoing>mb</bpmn:outgoing></bpmn:task>
    <bpmn:exclusiveGateway id="merge"><bpmn:incoming>ma</bpmn:incoming><bpmn:incoming>mb</bpmn:incoming><bpmn:outgoing>f1</bpmn:outgoing></bpmn:exclusiveGateway>
    <bpmn:subProcess id="sub"><bpmn:incoming>f1</bpmn:incoming><bpmn:outgoing>f2</bpmn:outgoing>
      <bpmn:startEvent id="is"><bpmn:outgoing>g0</bpmn:outgoing></bpmn:startEvent>
      <bpmn:task id="inner"><bpmn:incoming>g0</bpmn:incoming><bpmn:outgoing>g1</bpmn:outgoing></bpmn:task>
      <bpmn:endEvent id="ie"><bpmn:incoming>g1</bpmn:incoming></bpmn:endEvent>
      <bpmn:sequenceFlow id="g0" sourceRef="is" targetRef="inner" />
      <bpmn:sequenceFlow id="g1" sourceRef="inner" targetRef="ie" />
    </bpmn:subProcess>
    <bpmn:endEvent id="e"><bpmn:incoming>f2</bpmn:incoming></bpmn:endEvent>
    <bpmn:sequenceFlow id="f0" sourceRef="s" targetRef="fork" />
    <bpmn:sequenceFlow id="fa" sourceRef="fork" targetRef="a" />
    <bpmn:sequenceFlow id="fb" sourceRef="fork" targetRef="b" />
    <bpmn:sequenceFlow id="ma" sourceRef="a" targetRef="merge" />
    <bpmn:sequenceFlow id="mb" sourceRef="b" targetRef="merge" />
    <bpmn:sequenceFlow id="f1" sourceRef="merge" targetRef="sub" />
    <bpmn:sequenceFlow id="f2" sourceRef="sub" targetRef="e" />
  </bpmn:process>
</bpmn:definitions>` + "`" + `

func TestGocvReplay(t *testing.T) {
	var defs schema.Definitions
	if err := xml.Unmarshal([]byte(reentryXML), &defs); err != nil {
		t.Fatal(err)
	}
	proc, err := NewEngine().NewProcess(&defs)
	if err != nil {
		t.Fatal(err)
	}
	ctx, cancel := context.WithTimeout(context.Background(), 4*time.Second)
	defer cancel()
	traces := proc.Tracer().SubscribeChannel(make(chan tracing.ITrace, 64))
	if err := proc.StartAll(ctx); err != nil {
		t.Fatal(err)
	}
	var inner, ends atomic.Int32
	hold := make(chan TaskTrace, 4)
	go func() {
		for tr := range traces {
			switch tt := tracing.Unwrap(tr).(type) {
			case TaskTrace:
				id, _ := tt.GetActivity().Element().Id()
				if *id == "inner" {
					inner.Add(1)
				}
				if *id == "b" {
					hold <- tt // answered later: the second token enters the sub-process after the first has left
					continue
				}
				tt.Do()
			case VisitTrace:
				if id, ok := tt.Node.Id(); ok && *id == "e" {
					ends.Add(1)
					select {
					case h := <-hold:
						h.Do()
					default:
					}
				}
			}
		}
	}()
	ok := proc.WaitUntilComplete(ctx)
	t.Logf("complete=%v inner requests=%d end visits=%d", ok, inner.Load(), ends.Load())
	if !ok || inner.Load() != 2 || ends.Load() != 2 {
		t.Fatalf("sub-process entered twice in sequence: complete=%v inner requests=%d end visits=%d (want true, 2, 2)", ok, inner.Load(), ends.Load())
	}
}
`

// ---------------------------------------------------------------------------
// driver: (*eventBasedGateway).run$2 — the winner's transformer sends `true` to every loser on an unbuffered channel
// (C06): a loser that has already taken its own action (its event arrived at the same time) no longer listens, the
// winner blocks for ever and the instance never completes.

func init() {
	registerReplay(replayDriver{
		modelFree: true,
		name:      "bpmn event-based gateway: both events delivered at the same time",
		match: func(ob *Oblig) bool {
			return ob.Class == "blocking" && strings.HasPrefix(ob.Func, "bpmn.(*eventBasedGateway).run$2")
		},
		build: func(ob *Oblig, m map[string]string) (string, string, bool) {
			return ".", "// generated by gocv for obligation " + ob.Name + "\n" + ebgConcurrentTest, true
		},
	})
}

const ebgConcurrentTest = `package bpmn

import (
	"context"
	"encoding/xml"
	"os"
	"sync"
	"testing"
	"time"

	"github.com/olive-io/bpmn/schema"
	"github.com/olive-io/bpmn/v2/pkg/event"
	"github.com/olive-io/bpmn/v2/pkg/tracing"
)

func TestGocvReplay(t *testing.T) {
	src, err := os.ReadFile("testdata/event_based_gateway.bpmn")
	if err != nil {
		t.Fatal(err)
	}
	incomplete := 0
	const runs = 12
	for run := 0; run < runs; run++ {
		var defs schema.Definitions
		if err := xml.Unmarshal(src, &defs); err != nil {
			t.Fatal(err)
		}
		proc, err := NewEngine().NewProcess(&defs)
		if err != nil {
			t.Fatal(err)
		}
		ctx, cancel := context.WithTimeout(context.Background(), time.Second)
		traces := proc.Tracer().SubscribeChannel(make(chan tracing.ITrace, 128))
		if err := proc.StartAll(ctx); err != nil {
			t.Fatal(err)
		}
		listening := make(chan struct{}, 4)
		go func() {
			for tr := range traces {
				switch tt := tracing.Unwrap(tr).(type) {
				case ActiveListeningTrace:
					listening <- struct{}{}
				case TaskTrace:
					tt.Do()
				}
			}
		}()
		for i := 0; i < 2; i++ {
			select {
			case <-listening:
			case <-ctx.Done():
				t.Fatal("the alternatives never started listening")
			}
		}
		// both competing events at the same time, from different goroutines
		var wg sync.WaitGroup
		for _, ev := range []event.IEvent{event.NewSignalEvent("Sig1"), event.NewMessageEvent("Msg1", nil)} {
			wg.Add(1)
			go func(ev event.IEvent) { defer wg.Done(); proc.ConsumeEvent(ev) }(ev)
		}
		wg.Wait()
		if !proc.WaitUntilComplete(ctx) {
			incomplete++
		}
		cancel()
	}
	if incomplete > 0 {
		t.Fatalf("%d of %d instances did not complete after both alternatives' events were delivered at the same time", incomplete, runs)
	}
}
`

// ---------------------------------------------------------------------------
// driver: (*subProcess).run — a cancel message while the inner flow is running (C10, the twin of the generic task's
// refusal): an interrupting boundary event on a running sub-process; the inner task is answered only after the
// exception flow has reached its end event, and the normal flow continues all the same.

func init() {
	registerReplay(replayDriver{
		modelFree: true,
		name:      "bpmn sub-process with an interrupting boundary event",
		match: func(ob *Oblig) bool {
			return strings.HasPrefix(ob.Func, "bpmn.(*subProcess).run") && strings.Contains(ob.Name, "interrupt-cancels-a-running-sub-process")
		},
		build: func(ob *Oblig, m map[string]string) (string, string, bool) {
			return ".", "// generated by gocv for obligation " + ob.Name + "\n" + subprocessInterruptTest, true
		},
	})
}

const subprocessInterruptTest = `package bpmn

import (
	"context"
	"encoding/xml"
	"testing"
	"time"

	"github.com/olive-io/bpmn/schema"
	"github.com/olive-io/bpmn/v2/pkg/event"
	"github.com/olive-io/bpmn/v2/pkg/tracing"
)

const spCancelXML = ` + "`" + `<?xml version="1.0" encoding="UTF-8"?>
<bpmn:definitions xmlns:bpmn="http://www.omg.org/spec/BPMN/20100524/MODEL" id="D" targetNamespace="http://bpmn.io/schema/bpmn">
  <bpmn:process id="P" isExecutable="true">
    <bpmn:startEvent id="s"><bpmn:outgoing>f0</bpmn:outgoing></bpmn:startEvent>
    <bpmn:subProcess id="sub"><bpmn:incoming>f0</bpmn:incoming><bpmn:outgoing>f1</bpmn:outgoing>
      <bpmn:startEvent id="is"><bpmn:outgoing>g0</bpmn:outgoing></bpmn:startEvent>
      <bpmn:task id="inner"><bpmn:incoming>g0</bpmn:incoming><bpmn:outgoing>g1</bpmn:outgoing></bpmn:task>
      <bpmn:endEvent id="ie"><bpmn:incoming>g1</bpmn:incoming></bpmn:endEvent>
      <bpmn:sequenceFlow id="g0" sourceRef="is" targetRef="inner" />
      <bpmn:sequenceFlow id="g1" sourceRef="inner" targetRef="ie" />
    </bpmn:subProcess>
    <bpmn:endEvent id="e"><bpmn:incoming>f1</bpmn:incoming></bpmn:endEvent>
    <bpmn:boundaryEvent id="b" cancelActivity="true" attachedToRef="sub">
      <bpmn:outgoing>f2</bpmn:outgoing>
      <bpmn:signalEventDefinition id="sd" signalRef="sig1" />
    </bpmn:boundaryEvent>
    <bpmn:endEvent id="e2"><bpmn:incoming>f2</bpmn:incoming></bpmn:endEvent>
    <bpmn:sequenceFlow id="f0" sourceRef="s" targetRef="sub" />
    <bpmn:sequenceFlow id="f1" sourceRef="sub" targetRef="e" />
    <bpmn:sequenceFlow id="f2" sourceRef="b" targetRef="e2" />
  </bpmn:process>
  <bpmn:signal id="sig1" name="sig1" />
</bpmn:definitions>` + "`" + `

func TestGocvReplay(t *testing.T) {
	var defs schema.Definitions
	if err := xml.Unmarshal([]byte(spCancelXML), &defs); err != nil {
		t.Fatal(err)
	}
	proc, err := NewEngine().NewProcess(&defs)
	if err != nil {
		t.Fatal(err)
	}
	ctx, cancel := context.WithTimeout(context.Background(), 5*time.Second)
	defer cancel()
	traces := proc.Tracer().SubscribeChannel(make(chan tracing.ITrace, 128))
	if err := proc.StartAll(ctx); err != nil {
		t.Fatal(err)
	}
	var pending TaskTrace
	listening := false
	visited := map[string]int{}
	fired := false
	deadline := time.After(3 * time.Second)
	for {
		select {
		case tr := <-traces:
			switch tt := tracing.Unwrap(tr).(type) {
			case TaskTrace:
				id, _ := tt.GetActivity().Element().Id()
				t.Logf("task %s", *id)
				if *id == "inner" {
					pending = tt
				}
			case ActiveListeningTrace:
				if id, ok := tt.Node.Id(); ok && *id == "b" {
					listening = true
				}
			case VisitTrace:
				if id, ok := tt.Node.Id(); ok {
					visited[*id]++
					t.Logf("visit %s", *id)
					if *id == "e2" && pending != nil {
						// the interrupting path is through: now the inner task is answered
						time.Sleep(50 * time.Millisecond)
						pending.Do()
					}
				}
			case CancellationFlowNodeTrace:
				id, _ := tt.Node.Id()
				t.Logf("cancellation %s", *id)
			case ErrorTrace:
				t.Logf("error %v", tt.Error)
			}
			if pending != nil && listening && !fired {
				fired = true
				time.Sleep(50 * time.Millisecond)
				if _, err := proc.ConsumeEvent(event.NewSignalEvent("sig1")); err != nil {
					t.Fatal(err)
				}
			}
		case <-deadline:
			t.Logf("visited=%v", visited)
			if visited["e2"] != 1 {
				t.Fatalf("the interrupting boundary event's flow did not reach e2")
			}
			if visited["e"] != 0 {
				t.Fatalf("an interrupting boundary event on a running sub-process did not stop its normal flow: e visited %d times", visited["e"])
			}
			return
		}
	}
}
`

// ---------------------------------------------------------------------------
// driver: schema.(*Value).ValueFrom — declared-type value clauses (C16): the model names the dynamic type and the
// number; the replay stores that number in a value declared integer / float and reads it back (the property's own
// oracle: a value survives storage unchanged).

func init() {
	intKinds := []string{"int", "int8", "int16", "int32", "int64", "uint", "uint8", "uint16", "uint32", "uint64"}
	registerReplay(replayDriver{
		name: "schema.Value.ValueFrom with a declared numeric type",
		match: func(ob *Oblig) bool {
			return ob.Class == "post" && strings.HasPrefix(ob.Func, "schema.(*Value).ValueFrom") &&
				(strings.Contains(ob.Name, "declared-integer-keeps-every") || strings.Contains(ob.Name, "declared-float-value"))
		},
		terms: func(ob *Oblig) []ModelVar {
			var out []ModelVar
			if v := ob.inputTerm("value"); v != "" {
				out = append(out, ModelVar{Name: "tag(value)", Term: "(i_tag " + v + ")"}, ModelVar{Name: "ival(value)", Term: "(i_val " + v + ")"})
			}
			return out
		},
		build: func(ob *Oblig, m map[string]string) (string, string, bool) {
			c := ob.ctx
			tg, ok := modelInt(m["tag(value)"])
			if !ok {
				return "", "", false
			}
			typ := ""
			for _, k := range append(append([]string(nil), intKinds...), "float32", "float64") {
				if id, ok := c.tags[k]; ok && int64(id) == tg {
					typ = k
				}
			}
			if typ == "" {
				return "", "", false
			}
			declared, sample, want := "integer", "5", "int64(5)"
			if strings.HasPrefix(typ, "float") {
				declared, sample, want = "float", "1.5", "float64(1.5)"
			} else if n, ok := modelInt(m["ival(value)"]); ok && n >= 0 && n <= 100 {
				sample, want = fmt.Sprint(n), fmt.Sprintf("int64(%d)", n)
			}
			src := fmt.Sprintf(`package schema

import "testing"

// generated by gocv from the model of obligation %s
func TestGocvReplay(t *testing.T) {
	var arg any = %s(%s)
	v := &Value{ItemType: ItemType(%q)}
	v.ValueFrom(arg)
	if got := v.ValueFor(); got != any(%s) {
		t.Fatalf("a %s stored in a value declared %s reads back as %%#v (text %%q), want %%#v", got, v.ItemValue, any(%s))
	}
}
`, ob.Name, typ, sample, declared, want, typ, declared, want)
			return "schema", src, true
		},
	})
}

// ---------------------------------------------------------------------------
// driver: distributeFlows (C03/C05) — the model gives the number of parked tokens and of outgoing flows; the replay
// runs the real function on that many and checks the property's own statement: every parked token is answered exactly
// once, every outgoing flow is handed out exactly once, pre-selected, and the surplus tokens are consumed.

func init() {
	registerReplay(replayDriver{
		name: "bpmn.distributeFlows on N parked tokens and M outgoing flows",
		match: func(ob *Oblig) bool {
			return (ob.Class == "post" || ob.Class == "inv-keep" || ob.Class == "panic") && strings.HasPrefix(ob.Func, "bpmn.distributeFlows")
		},
		terms: func(ob *Oblig) []ModelVar {
			var out []ModelVar
			if v := ob.inputTerm("awaitingActions"); v != "" {
				out = append(out, ModelVar{Name: "N", Term: "(s_len " + v + ")"})
			}
			if v := ob.inputTerm("sequenceFlows"); v != "" {
				out = append(out, ModelVar{Name: "M", Term: "(s_len " + v + ")"})
			}
			return out
		},
		build: func(ob *Oblig, m map[string]string) (string, string, bool) {
			n, ok1 := modelInt(m["N"])
			mm, ok2 := modelInt(m["M"])
			if !ok1 || !ok2 || n < 0 || mm < 0 || n > 20000 || mm > 20000 {
				return "", "", false
			}
			src := fmt.Sprintf(`package bpmn

import (
	"testing"
	"time"
)

// generated by gocv from the model of obligation %s
func TestGocvReplay(t *testing.T) {
	const n, m = %d, %d
	chans := make([]chan IAction, n)
	for i := range chans {
		chans[i] = make(chan IAction, 4)
	}
	flows := make([]*SequenceFlow, m)
	for i := range flows {
		flows[i] = new(SequenceFlow)
	}
	done := make(chan struct{})
	go func() { defer close(done); distributeFlows(chans, flows) }()
	select {
	case <-done:
	case <-time.After(2 * time.Second):
		t.Fatal("distributeFlows did not return")
	}
	handed := map[*SequenceFlow]int{}
	for i, ch := range chans {
		if len(ch) != 1 {
			t.Fatalf("parked token %%d of %%d was answered %%d times (outgoing flows: %%d)", i, n, len(ch), m)
		}
		switch a := (<-ch).(type) {
		case flowAction:
			if len(a.unconditionalFlows) != len(a.sequenceFlows) {
				t.Fatalf("token %%d: %%d flows, %%d of them pre-selected", i, len(a.sequenceFlows), len(a.unconditionalFlows))
			}
			for k, idx := range a.unconditionalFlows {
				if idx != k {
					t.Fatalf("token %%d: pre-selected index %%d at position %%d", i, idx, k)
				}
				handed[a.sequenceFlows[idx]]++
			}
		case completeAction:
		default:
			t.Fatalf("token %%d: unexpected action %%T", i, a)
		}
	}
	if n > 0 {
		for i, f := range flows {
			if handed[f] != 1 {
				t.Fatalf("outgoing flow %%d of %%d was handed out %%d times to %%d parked tokens", i, m, handed[f], n)
			}
		}
	}
}
`, ob.Name, n, mm)
			return ".", src, true
		},
	})
}

// ---------------------------------------------------------------------------
// driver: (*ProcessSet).triggerCatch$1 (C18) — the canceller must forget the listener it wakes: the replay registers a
// listening catch event, wakes it, and lets a second throw for the same catch event arrive (which must be a no-op).

func init() {
	registerReplay(replayDriver{
		modelFree: true,
		name:      "bpmn.ProcessSet: a second throw for a catch event that was woken already",
		match: func(ob *Oblig) bool {
			return strings.HasPrefix(ob.Func, "bpmn.(*ProcessSet).triggerCatch$1") && strings.Contains(ob.Name, "listener-forgotten")
		},
		build: func(ob *Oblig, m map[string]string) (string, string, bool) {
			src := fmt.Sprintf(`package bpmn

import "testing"

// generated by gocv for obligation %s
func TestGocvReplay(t *testing.T) {
	ps := &ProcessSet{catchCh: map[string]chan struct{}{"catchC": make(chan struct{})}}
	wake, ok := ps.triggerCatch("catchC")
	if !ok {
		t.Fatal("the registered catch event was not found")
	}
	wake()
	defer func() {
		if r := recover(); r != nil {
			t.Fatalf("a second throw for a catch event that was woken already: %%v", r)
		}
	}()
	if again, ok := ps.triggerCatch("catchC"); ok {
		again()
		t.Fatalf("the woken catch event is still registered as listening")
	}
}
`, ob.Name)
			return ".", src, true
		},
	})
}

// ---------------------------------------------------------------------------
// driver: (*Sno).RestoreIdGenerator (C20) — a generator that is not restored from a snapshot must draw a partition of
// its own: two generators created from empty bytes, one identifier each, must differ in their partition.

func init() {
	registerReplay(replayDriver{
		modelFree: true,
		name:      "pkg/id: two generators created without a snapshot",
		match: func(ob *Oblig) bool {
			return strings.HasPrefix(ob.Func, "pkg/id.(*Sno).RestoreIdGenerator") && strings.Contains(ob.Name, "draws-its-own-partition")
		},
		build: func(ob *Oblig, m map[string]string) (string, string, bool) {
			src := fmt.Sprintf(`package id

import (
	"context"
	"testing"

	"github.com/olive-io/bpmn/v2/pkg/tracing"
)

// generated by gocv for obligation %s
func TestGocvReplay(t *testing.T) {
	ctx, cancel := context.WithCancel(context.Background())
	defer cancel()
	tracer := tracing.NewTracer(ctx)
	g1, err := GetSno().RestoreIdGenerator(ctx, nil, tracer)
	if err != nil {
		t.Fatal(err)
	}
	g2, err := GetSno().RestoreIdGenerator(ctx, []byte{}, tracer)
	if err != nil {
		t.Fatal(err)
	}
	p1 := g1.(*SnoGenerator).Generator.Partition()
	p2 := g2.(*SnoGenerator).Generator.Partition()
	if p1 == p2 {
		t.Fatalf("two generators created without a snapshot share partition %%v: their identifiers collide whenever they draw in the same time unit", p1)
	}
}
`, ob.Name)
			return "pkg/id", src, true
		},
	})
}
