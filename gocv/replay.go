package main

// Replay of solver models against the real code (go test -overlay); drivers are per function family.

func replayModel(o options, w *World, ob *Oblig, model map[string]string) (bool, string) {
	return false, ""
}
