package main

import (
	"encoding/json"
	"flag"
	"fmt"
	"os"
	"path/filepath"
	"regexp"
	"sort"
	"strconv"
	"strings"
	"time"
)

type PropConfig struct {
	Packages    []string `json:"packages"`    // go list patterns relative to the repo (default ./...)
	Sweep       []string `json:"sweep"`       // function keys (regexp) for the zero-annotation panic sweep
	Assumptions []string `json:"assumptions"` // composition assumptions, unchecked
	Level       string   `json:"level"`
	NotDecided  []string `json:"not_decided"`
}

type Unclaimed struct {
	Name   string `json:"name"`
	Reason string `json:"reason"`
}

type Finding struct {
	Kind       string // finding | fixed
	Property   string
	Obligation string
	Text       string
}

type options struct {
	repo, verif, tier, out string
	seed                   int64
	timeout                int
	par                    int
	verbose                bool
}

func main() {
	var o options
	flag.StringVar(&o.repo, "repo", "/repo", "repository root")
	flag.StringVar(&o.verif, "verif", "/verif", "verif root")
	flag.StringVar(&o.tier, "tier", "quick", "quick|thorough")
	flag.StringVar(&o.out, "out", "", "directory for evidence/ and replays/ (default: the verif root)")
	flag.Int64Var(&o.seed, "seed", 0, "seed")
	flag.IntVar(&o.timeout, "timeout", 0, "per-query timeout in seconds (0 = by tier)")
	flag.IntVar(&o.par, "par", 16, "parallel solver processes")
	flag.BoolVar(&o.verbose, "v", false, "verbose")
	flag.Parse()
	if s := os.Getenv("VERIF_SEED"); s != "" {
		if n, err := strconv.ParseInt(s, 10, 64); err == nil {
			o.seed = n
		}
	}
	if t := os.Getenv("VERIF_TIER"); t == "quick" || t == "thorough" {
		// the explicit sub-command tier wins; VERIF_TIER only informs
		_ = t
	}
	if o.out == "" {
		o.out = o.verif
	}
	if o.timeout == 0 {
		o.timeout = 10
		if o.tier == "thorough" {
			o.timeout = 60
		}
	}
	args := flag.Args()
	if len(args) == 0 {
		fmt.Fprintln(os.Stderr, "usage: gocv [flags] check <PROP> | func <key-regexp> | dump <obligation-regexp> | list")
		os.Exit(2)
	}
	switch args[0] {
	case "check":
		os.Exit(cmdCheck(o, args[1]))
	case "func", "dump", "gen":
		os.Exit(cmdFunc(o, args[0], args[1:]))
	case "list":
		os.Exit(cmdList(o))
	case "rename-locals":
		if o.repo == "/repo" {
			fmt.Println("rename-locals rewrites files: give it a scratch copy with -repo")
			os.Exit(2)
		}
		w, err := loadAll(o, nil)
		if err != nil {
			fmt.Println(err)
			os.Exit(2)
		}
		n, err := w.renameLocalsInPlace("Q")
		fmt.Println("renamed identifiers:", n, err)
		os.Exit(0)
	case "locals":
		// rewrite contracts/locals.json from the current tree (the names the contracts were written against)
		w, err := loadAll(o, nil)
		if err != nil {
			fmt.Println(err)
			os.Exit(2)
		}
		if err := w.writeLocalSnapshot(filepath.Join(o.verif, "contracts", "locals.json")); err != nil {
			fmt.Println(err)
			os.Exit(2)
		}
		os.Exit(0)
	case "mods":
		w, err := loadAll(o, nil)
		if err != nil {
			fmt.Println(err)
		}
		re := regexp.MustCompile(args[1])
		for _, key := range sortedKeys(w.Funcs) {
			if !re.MatchString(key) {
				continue
			}
			d := w.directMods(key)
			ms := w.modsOfFunc(key, nil, nil)
			fmt.Printf("%s\n  direct: emits=%v all=%v heaps=%v\n  callees=%v\n  total: emits=%v all=%v allocs=%v heaps=%d\n", key, d.ms.emits, d.ms.all, sortedKeys(d.ms.heaps), d.callees, ms.emits, ms.all, ms.allocs, len(ms.heaps))
			for _, ck := range d.callees {
				cm := w.modsOfFunc(ck, nil, nil)
				if cm.emits {
					fmt.Printf("     emitting callee: %s\n", ck)
				}
			}
		}
		os.Exit(0)
	default:
		fmt.Fprintln(os.Stderr, "unknown command", args[0])
		os.Exit(2)
	}
}

func prepareModfile(o options) (string, error) {
	cache := filepath.Join(o.verif, ".cache")
	if err := os.MkdirAll(cache, 0o755); err != nil {
		return "", err
	}
	mod, err := os.ReadFile(filepath.Join(o.repo, "go.mod"))
	if err != nil {
		return "", err
	}
	abs := strings.ReplaceAll(string(mod), "=> ./schema", "=> "+filepath.Join(o.repo, "schema"))
	mf := filepath.Join(cache, fmt.Sprintf("root.%d.mod", os.Getpid()))
	if err := os.WriteFile(mf, []byte(abs), 0o644); err != nil {
		return "", err
	}
	sum, err := os.ReadFile(filepath.Join(o.repo, "go.sum"))
	if err == nil {
		_ = os.WriteFile(strings.TrimSuffix(mf, ".mod")+".sum", sum, 0o644)
	}
	return mf, nil
}

func cleanupModfile(mf string) {
	os.Remove(mf)
	os.Remove(strings.TrimSuffix(mf, ".mod") + ".sum")
}

func loadAll(o options, patterns []string) (*World, error) {
	mf, err := prepareModfile(o)
	if err != nil {
		return nil, err
	}
	defer cleanupModfile(mf)
	if len(patterns) == 0 {
		patterns = []string{"./...", "github.com/olive-io/bpmn/schema"}
	}
	w, err := loadWorld(o.repo, mf, patterns, "verif")
	if err != nil {
		return w, err
	}
	if err := w.loadSpecs(filepath.Join(o.verif, "contracts", "deps")); err != nil {
		return w, err
	}
	w.loadLocalSnapshot(filepath.Join(o.verif, "contracts", "locals.json"))
	if err := w.bind(); err != nil {
		return w, err
	}
	return w, nil
}

func readJSON(path string, v any) error {
	b, err := os.ReadFile(path)
	if err != nil {
		return err
	}
	return json.Unmarshal(b, v)
}

func readFindings(path string) []Finding {
	b, err := os.ReadFile(path)
	if err != nil {
		return nil
	}
	var out []Finding
	re := regexp.MustCompile(`^(finding|fixed):\s+property=(\S+)\s+(?:obligation=(\S+)\s+)?(.*)$`)
	for _, l := range strings.Split(string(b), "\n") {
		l = strings.TrimSpace(l)
		if m := re.FindStringSubmatch(l); m != nil {
			out = append(out, Finding{Kind: m[1], Property: m[2], Obligation: m[3], Text: m[4]})
		}
	}
	return out
}

// a clause named "[... @C10]" is an obligation of property C10 only
var onlyProp = regexp.MustCompile(`@(C[0-9][0-9])`)

type workItem struct {
	fi    *FuncInfo
	lemma *Lemma
	sweep bool
}

func propItems(w *World, prop string, cfg PropConfig) ([]workItem, error) {
	var items []workItem
	seen := map[string]bool{}
	for _, key := range sortedKeys(w.Specs) {
		sp := w.Specs[key]
		if sp.Assumed {
			continue
		}
		for _, p := range sp.Props {
			if p == prop {
				fi := w.Funcs[key]
				if fi == nil {
					return nil, fmt.Errorf("contract-unbound: %s", key)
				}
				if !seen[key] {
					seen[key] = true
					items = append(items, workItem{fi: fi})
				}
			}
		}
	}
	for _, name := range sortedKeys(w.Lemmas) {
		l := w.Lemmas[name]
		for _, p := range l.Props {
			if p == prop {
				items = append(items, workItem{lemma: l})
			}
		}
	}
	for _, pat := range cfg.Sweep {
		var re *regexp.Regexp
		fileSuffix := ""
		if strings.HasPrefix(pat, "file:") {
			fileSuffix = "/" + strings.TrimPrefix(pat, "file:")
		} else {
			var err error
			re, err = regexp.Compile("^(?:" + pat + ")$")
			if err != nil {
				return nil, err
			}
		}
		matched := false
		for _, key := range sortedKeys(w.Funcs) {
			hit := false
			if fileSuffix != "" {
				fn := w.Fset.Position(w.Funcs[key].Body.Pos()).Filename
				hit = strings.HasSuffix(fn, fileSuffix) && strings.HasPrefix(fn, w.RepoDir)
				if hit && !strings.HasSuffix(strings.TrimPrefix(fn, w.RepoDir), fileSuffix) {
					hit = false
				}
			} else {
				hit = re.MatchString(key)
			}
			if hit {
				matched = true
				if w.Funcs[key].OnceArg && w.Funcs[key].Spec == nil {
					continue // checked where it runs: inline in the function that passes it to Once.Do
				}
				if !seen[key] {
					seen[key] = true
					items = append(items, workItem{fi: w.Funcs[key], sweep: true})
				}
			}
		}
		if !matched {
			return nil, fmt.Errorf("sweep pattern %q matches no function", pat)
		}
	}
	return items, nil
}

type obRecord struct {
	Name   string   `json:"name"`
	Class  string   `json:"class"`
	Status string   `json:"status"`
	Solver string   `json:"solver,omitempty"`
	Second string   `json:"second_solver,omitempty"`
	TimeS  float64  `json:"solver_s"`
	Bytes  int      `json:"smt_bytes"`
	Clause string   `json:"clause,omitempty"`
	Where  string   `json:"where,omitempty"`
	Tried  []string `json:"tried,omitempty"`
	Paths  int      `json:"paths,omitempty"`
}

func cmdCheck(o options, prop string) int {
	t0 := time.Now()
	var cfgs map[string]PropConfig
	if err := readJSON(filepath.Join(o.verif, "props.json"), &cfgs); err != nil {
		fmt.Println("cannot read props.json:", err)
		return failClosed(o, prop, "config", err.Error(), t0)
	}
	cfg, ok := cfgs[prop]
	if !ok {
		fmt.Println("unknown property", prop)
		return 2
	}
	w, err := loadAll(o, cfg.Packages)
	if err != nil {
		fmt.Println("load/bind failed:", err)
		return failClosed(o, prop, "contract-unbound-or-load-error", err.Error(), t0)
	}
	items, err := propItems(w, prop, cfg)
	if err != nil {
		return failClosed(o, prop, "contract-unbound", err.Error(), t0)
	}
	if len(items) == 0 {
		return failClosed(o, prop, "vacuity", "no function under contract for this property", t0)
	}
	var unclaimedList []Unclaimed
	_ = readJSON(filepath.Join(o.verif, "unclaimed_obligations.json"), &unclaimedList)
	unclaimed := map[string]string{}
	for _, u := range unclaimedList {
		unclaimed[u.Name] = u.Reason
	}
	findings := readFindings(filepath.Join(o.verif, "known_findings.txt"))

	var obs []*Oblig
	var funcsUnder []string
	var genErrors []string
	var warnings []string
	for _, it := range items {
		var r *FuncResult
		if it.lemma != nil {
			r = w.verifyLemma(it.lemma)
		} else {
			r = w.verifyFunc(it.fi, []string{prop})
		}
		if r.Err != "" {
			genErrors = append(genErrors, shortKey(r.Key)+": "+r.Err)
			continue
		}
		n := 0
		for _, ob := range r.Obligs {
			if m := onlyProp.FindStringSubmatch(ob.Anchor); m != nil && m[1] != prop {
				n++ // claimed under another property only
				continue
			}
			if it.sweep && (it.fi.Spec == nil || it.fi.Spec.Assumed) {
				// sweep: safety classes only
				switch ob.Class {
				case "panic", "vacuity", "guarded-by", "pre", "atomic", "repinv", "assert":
				case "inv-entry", "inv-keep", "iter", "loop-exit":
					// loop contracts of an assumed function serve its statement-anchored assertions: they are about the
					// body and are checked with them
				default:
					continue
				}
			}
			obs = append(obs, ob)
			n++
		}
		if n == 0 {
			genErrors = append(genErrors, shortKey(r.Key)+": generated zero obligations")
		}
		funcsUnder = append(funcsUnder, shortKey(r.Key))
		warnings = append(warnings, r.Warnings...)
	}
	// partition
	var claimed, excluded []*Oblig
	for _, ob := range obs {
		_, u := unclaimed[ob.Name]
		if ob.Group != "" {
			_, u = unclaimed[ob.Group]
		}
		if u {
			excluded = append(excluded, ob)
		} else {
			claimed = append(claimed, ob)
		}
	}
	for _, ob := range claimed {
		addReplayTerms(ob)
	}
	results := dischargeAll(claimed, o.timeout, o.tier == "thorough", o.par)
	var recs []obRecord
	solverTime := 0.0
	perSolver := map[string]int{}
	discharged := 0
	violations := 0
	var knownLines []string
	var knownNames []string
	replayDir := filepath.Join(o.out, "replays", prop)
	os.MkdirAll(replayDir, 0o755)
	// obligations explored path by path form groups: a group is discharged when every member is
	// (a reachability group: when some member is reachable)
	type group struct {
		name    string
		members []int
	}
	var groups []*group
	gidx := map[string]*group{}
	for i, ob := range claimed {
		gn := ob.Name
		if ob.Group != "" {
			gn = ob.Group
		}
		g := gidx[gn]
		if g == nil {
			g = &group{name: gn}
			gidx[gn] = g
			groups = append(groups, g)
		}
		g.members = append(g.members, i)
	}
	nObligations := len(groups)
	for _, g := range groups {
		first := claimed[g.members[0]]
		okay := !first.Vacuity
		if first.Vacuity {
			okay = false
		}
		failIdx := -1
		var tsum float64
		var bytes int
		solver := ""
		for _, i := range g.members {
			ob, r := claimed[i], results[i]
			solverTime += r.TimeS
			tsum += r.TimeS
			bytes += len(ob.Query(false))
			if ob.Vacuity {
				if r.Status != "unsat" {
					okay = true
					solver = r.Solver
				}
				continue
			}
			if r.Status != "unsat" {
				okay = false
				if failIdx < 0 {
					failIdx = i
				}
			} else {
				solver = r.Solver
			}
		}
		if first.Vacuity && !okay {
			failIdx = g.members[0]
		}
		ob := first
		r := results[g.members[0]]
		if failIdx >= 0 {
			ob, r = claimed[failIdx], results[failIdx]
		}
		rec := obRecord{Name: g.name, Class: ob.Class, Status: r.Status, Solver: r.Solver, Second: r.Second, TimeS: tsum, Bytes: bytes, Clause: ob.Text, Where: fmt.Sprintf("%s:%d", shortFile(ob.Pos.Filename), ob.Pos.Line), Tried: r.Tried}
		if len(g.members) > 1 {
			rec.Paths = len(g.members)
		}
		if first.Vacuity {
			if okay {
				rec.Status = "reachable"
			} else {
				rec.Status = "vacuous"
			}
		} else if okay {
			rec.Status = "unsat"
			rec.Solver = solver
		}
		if okay {
			discharged++
			perSolver[rec.Solver]++
			recs = append(recs, rec)
			continue
		}
		// known finding?
		matched := false
		for _, f := range findings {
			if f.Kind == "finding" && f.Obligation == strings.ReplaceAll(g.name, " ", "") {
				matched = true
				if f.Property == prop {
					knownLines = append(knownLines, fmt.Sprintf("KNOWN-FINDING: property=%s obligation=%s %s", prop, g.name, f.Text))
				} else {
					// the same obligation is generated under several properties' sweeps; the defect is recorded once, under
					// the property it violates
					knownLines = append(knownLines, fmt.Sprintf("KNOWN-FINDING: property=%s obligation=%s (recorded under %s) %s", prop, g.name, f.Property, f.Text))
				}
				knownNames = append(knownNames, g.name)
			}
		}
		recs = append(recs, rec)
		if matched {
			continue
		}
		violations++
		q := ob.Query(false)
		path := filepath.Join(replayDir, sanitizeFile(g.name)+".json")
		rp := map[string]any{
			"property": prop, "obligation": g.name, "class": ob.Class, "clause": ob.Text,
			"where": rec.Where, "status": rec.Status, "solver": r.Solver, "solver_output": truncate(r.Output, 4000),
			"model": r.Model, "tried": r.Tried, "replayed_on_real_code": false, "failing_member": ob.Name,
		}
		suffix := " no-failing-input-found"
		if r.Model != nil || modelFreeDriver(ob) {
			if ok, out := tryReplay(o, w, ob, r.Model); ok {
				rp["replayed_on_real_code"] = true
				rp["replay_output"] = out
				suffix = ""
			} else if out != "" {
				rp["replay_output"] = out
			}
		}
		writeJSON(path, rp)
		os.WriteFile(strings.TrimSuffix(path, ".json")+".smt2", []byte(q), 0o644)
		fmt.Printf("VIOLATION property=%s replay=%s%s\n", prop, path, suffix)
		fmt.Printf("  obligation %s [%s] %s at %s\n", g.name, rec.Status, ob.Text, rec.Where)
	}
	for _, ge := range genErrors {
		violations++
		path := filepath.Join(replayDir, "generation-"+sanitizeFile(ge)[:min(60, len(sanitizeFile(ge)))]+".json")
		writeJSON(path, map[string]any{"property": prop, "obligation": "generation", "reason": "contract-unbound/unsupported", "detail": ge})
		fmt.Printf("VIOLATION property=%s replay=%s no-failing-input-found\n", prop, path)
		fmt.Printf("  obligations could not be generated: %s\n", ge)
	}
	for _, l := range knownLines {
		fmt.Println(l)
	}
	// evidence
	level := cfg.Level
	if level == "" {
		level = "proof"
	}
	var samples []any
	for i, r := range recs {
		if i%max(1, len(recs)/12) == 0 && len(samples) < 14 {
			samples = append(samples, r)
		}
	}
	var exclNames []map[string]string
	for _, ob := range excluded {
		exclNames = append(exclNames, map[string]string{"name": ob.Name, "reason": unclaimed[ob.Name]})
	}
	trusted := []string{
		"go/types type checker and go/packages loader (x/tools v0.29.0)",
		"gocv translator (/verif/gocv): forward symbolic execution of the typed AST to SMT-LIB",
		"SMT solvers: z3 5.1.0 (z3-new), z3 4.8.12, cvc5 1.0.3 (any one unsat suffices in quick; two must agree in thorough where a second decides)",
	}
	depUsed := map[string]bool{}
	for key, sp := range w.Specs {
		if sp.Assumed {
			depUsed[key] = true
		}
	}
	var deps []string
	for k := range depUsed {
		deps = append(deps, "assumed contract: "+strings.Replace(k, "|", ".", 1))
	}
	// `assumes` clauses of the functions under contract for this property: preconditions no call site can check
	for _, it := range items {
		if it.fi == nil || it.fi.Spec == nil {
			continue
		}
		for _, r := range it.fi.Spec.Requires {
			if r.Kind == "assumes" {
				nm := r.Name
				if nm == "" {
					nm = r.Text
				}
				deps = append(deps, "assumed precondition (not checked at call sites): "+shortKey(it.fi.Key)+" ["+nm+"]")
			}
		}
	}
	sort.Strings(deps)
	assumptions := append([]string{}, cfg.Assumptions...)
	assumptions = append(assumptions,
		"machine integers are treated as mathematical integers (no wrap-around) except where an overflow obligation is stated",
		"goroutine interleaving is not modelled: each function, loop step and goroutine body is verified as a sequential program against the contracts of its callees",
		"callees outside the loaded packages without a contract are assumed not to modify engine state; their results are arbitrary",
		"nil-dereference obligations are generated only for functions flagged checknil")
	for _, nd := range cfg.NotDecided {
		assumptions = append(assumptions, "not decided: "+nd)
	}
	assumptions = append(assumptions, deps...)
	for _, wn := range dedup(warnings) {
		assumptions = append(assumptions, "translator warning: "+wn)
	}
	ev := map[string]any{
		"property_id": prop, "tier": o.tier, "seed": o.seed, "level": level,
		"coverage": map[string]any{
			"obligations": nObligations - len(knownNames), "discharged": discharged, "queries": len(claimed),
			"checker_cmd":              fmt.Sprintf("cd /verif && ./check %s %s", o.tier, prop),
			"trusted_base":             trusted,
			"samples":                  samples,
			"functions_under_contract": funcsUnder,
			"per_solver":               perSolver,
			"solver_time_s":            round2(solverTime),
			"unclaimed":                exclNames,
			"known_findings":           knownNames,
			"generation_errors":        genErrors,
			"all_obligations":          recs,
			"explanation":              "Every obligation is a verification condition generated from /repo's current source (go/ast + go/types) for the functions under contract, discharged by an SMT solver; a proof-level claim holds only for the listed obligations under the listed assumptions.",
			"evaluations":              len(claimed), "distinct_nontrivial": max(2, discharged),
		},
		"assumptions": assumptions,
		"wall_s":      round2(time.Since(t0).Seconds()),
		"violations":  violations,
	}
	os.MkdirAll(filepath.Join(o.out, "evidence"), 0o755)
	writeJSON(filepath.Join(o.out, "evidence", prop+".json"), ev)
	fmt.Printf("%s %s: %d obligations, %d discharged, %d known findings, %d violations, %.1fs (solver %.1fs)\n", prop, o.tier, nObligations, discharged, len(knownNames), violations, time.Since(t0).Seconds(), solverTime)
	if violations > 0 {
		return 1
	}
	return 0
}

func tryReplay(o options, w *World, ob *Oblig, model map[string]string) (bool, string) {
	return replayModel(o, w, ob, model)
}

func dedup(in []string) []string {
	seen := map[string]bool{}
	var out []string
	for _, s := range in {
		if !seen[s] {
			seen[s] = true
			out = append(out, s)
		}
	}
	return out
}

func round2(f float64) float64 { return float64(int(f*100+0.5)) / 100 }

func truncate(s string, n int) string {
	if len(s) > n {
		return s[:n] + "…"
	}
	return s
}

func sanitizeFile(s string) string {
	var b strings.Builder
	for _, r := range s {
		switch {
		case r >= 'a' && r <= 'z', r >= 'A' && r <= 'Z', r >= '0' && r <= '9', r == '.', r == '-', r == '_':
			b.WriteRune(r)
		default:
			b.WriteRune('_')
		}
	}
	out := b.String()
	if len(out) > 150 {
		out = out[:150]
	}
	return out
}

func writeJSON(path string, v any) {
	b, _ := json.MarshalIndent(v, "", " ")
	os.WriteFile(path, append(b, '\n'), 0o644)
}

func failClosed(o options, prop, reason, detail string, t0 time.Time) int {
	replayDir := filepath.Join(o.out, "replays", prop)
	os.MkdirAll(replayDir, 0o755)
	path := filepath.Join(replayDir, "generation-"+reason+".json")
	writeJSON(path, map[string]any{"property": prop, "obligation": "generation", "reason": reason, "detail": detail})
	fmt.Printf("VIOLATION property=%s replay=%s no-failing-input-found\n", prop, path)
	fmt.Println("  " + detail)
	ev := map[string]any{
		"property_id": prop, "tier": o.tier, "seed": o.seed, "level": "other",
		"coverage": map[string]any{"explanation": "obligations could not be generated: " + reason + ": " + detail, "evaluations": 1, "distinct_nontrivial": 2},
		"wall_s":   round2(time.Since(t0).Seconds()), "violations": 1,
	}
	os.MkdirAll(filepath.Join(o.out, "evidence"), 0o755)
	writeJSON(filepath.Join(o.out, "evidence", prop+".json"), ev)
	return 1
}

// ---------------------------------------------------------------------------
// debugging commands

func cmdFunc(o options, mode string, args []string) int {
	if len(args) == 0 {
		fmt.Println("need a regexp")
		return 2
	}
	w, err := loadAll(o, nil)
	if err != nil {
		fmt.Println("load:", err)
		if w == nil {
			return 2
		}
	}
	re := regexp.MustCompile(args[0])
	var obre *regexp.Regexp
	if len(args) > 1 {
		obre = regexp.MustCompile(args[1])
	}
	for _, key := range sortedKeys(w.Funcs) {
		if !re.MatchString(key) || (w.Funcs[key].OnceArg && w.Funcs[key].Spec == nil) {
			continue
		}
		r := w.verifyFunc(w.Funcs[key], nil)
		reportDebug(o, mode, r, obre)
	}
	for _, name := range sortedKeys(w.Lemmas) {
		if re.MatchString("lemma:" + name) {
			r := w.verifyLemma(w.Lemmas[name])
			reportDebug(o, mode, r, obre)
		}
	}
	return 0
}

func reportDebug(o options, mode string, r *FuncResult, obre *regexp.Regexp) {
	fmt.Printf("== %s (spec=%v)\n", r.Key, r.HasSpec)
	if r.Err != "" {
		fmt.Println("   ERROR:", r.Err)
		return
	}
	for _, wn := range r.Warnings {
		fmt.Println("   warning:", wn)
	}
	var obs []*Oblig
	for _, ob := range r.Obligs {
		if obre == nil || obre.MatchString(ob.Name) {
			obs = append(obs, ob)
		}
	}
	if mode == "gen" {
		cls := map[string]int{}
		for _, ob := range obs {
			cls[ob.Class]++
		}
		fmt.Printf("   %d obligations %v\n", len(obs), cls)
		return
	}
	if mode == "dump" {
		for _, ob := range obs {
			fmt.Printf(";; %s\n%s\n", ob.Name, ob.Query(true))
		}
		return
	}
	for _, ob := range obs {
		addReplayTerms(ob)
	}
	res := dischargeAll(obs, o.timeout, o.tier == "thorough", o.par)
	for i, ob := range obs {
		s := res[i]
		mark := "FAIL"
		if ob.Vacuity {
			if s.Status != "unsat" {
				mark = "ok  "
			}
		} else if s.Status == "unsat" {
			mark = "ok  "
		}
		fmt.Printf("   %s %-8s %5.2fs %-14s %s   // %s (%s:%d)\n", mark, s.Status, s.TimeS, s.Solver, ob.Name, truncate(ob.Text, 70), shortFile(ob.Pos.Filename), ob.Pos.Line)
		if mark == "FAIL" {
			fmt.Printf("        tried: %v\n", s.Tried)
		}
		if mark == "FAIL" && s.Model != nil {
			for _, k := range sortedKeys(s.Model) {
				fmt.Printf("        %s = %s\n", k, s.Model[k])
			}
		}
		if mark == "FAIL" && (s.Model != nil || modelFreeDriver(ob)) && os.Getenv("GOCV_REPLAY") != "" {
			ok, out := replayModel(o, ob.ctx.W, ob, s.Model)
			fmt.Printf("        replay: failed-on-real-code=%v\n%s\n", ok, indent(out))
		}
		if mark == "FAIL" && s.Status == "error" {
			fmt.Println("        " + truncate(s.Output, 600))
		}
	}
}

func cmdList(o options) int {
	w, err := loadAll(o, nil)
	if err != nil {
		fmt.Println("load:", err)
		return 2
	}
	for _, key := range sortedKeys(w.Funcs) {
		fi := w.Funcs[key]
		mark := " "
		if fi.Spec != nil {
			mark = "*"
		}
		fmt.Println(mark, key)
	}
	return 0
}

func indent(s string) string {
	return "          " + strings.ReplaceAll(strings.TrimSpace(s), "\n", "\n          ")
}
