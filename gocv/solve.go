package main

import (
	"bytes"
	"context"
	"fmt"
	"os/exec"
	"regexp"
	"strings"
	"sync"
	"time"
)

type SolveResult struct {
	Status string // unsat, sat, unknown, timeout, error
	Solver string
	TimeS  float64
	Output string
	Model  map[string]string
	Second string // second solver agreeing (thorough)
	Tried  []string
}

type solverDef struct {
	name string
	cmd  func(timeoutS int) []string
	prep func(q string) string
}

var solvers = []solverDef{
	{"z3-new-5.1.0", func(t int) []string { return []string{"z3-new", "-in", fmt.Sprintf("-T:%d", t)} }, nil},
	{"z3-4.8.12", func(t int) []string { return []string{"z3", "-in", fmt.Sprintf("-T:%d", t)} }, nil},
	{"cvc5-1.0.3", func(t int) []string {
		return []string{"cvc5", "--lang=smt2", fmt.Sprintf("--tlimit=%d", t*1000), "--full-saturate-quant"}
	}, nil},
}

func runSolver(sd solverDef, query string, timeoutS int) SolveResult {
	return runSolverCtx(context.Background(), sd, query, timeoutS)
}

func runSolverCtx(parent context.Context, sd solverDef, query string, timeoutS int) SolveResult {
	t0 := time.Now()
	ctx, cancel := context.WithTimeout(parent, time.Duration(timeoutS+2)*time.Second)
	defer cancel()
	args := sd.cmd(timeoutS)
	cmd := exec.CommandContext(ctx, args[0], args[1:]...)
	cmd.Stdin = strings.NewReader(query)
	var out bytes.Buffer
	cmd.Stdout = &out
	cmd.Stderr = &out
	_ = cmd.Run()
	res := SolveResult{Solver: sd.name, TimeS: time.Since(t0).Seconds(), Output: out.String()}
	first := strings.TrimSpace(strings.SplitN(out.String(), "\n", 2)[0])
	switch {
	case strings.Contains(out.String(), "(error"):
		res.Status = "error"
	case first == "unsat":
		res.Status = "unsat"
	case first == "sat":
		res.Status = "sat"
	case first == "unknown":
		res.Status = "unknown"
	case first == "timeout" || ctx.Err() != nil || strings.Contains(out.String(), "timeout") || strings.Contains(out.String(), "interrupted"):
		res.Status = "timeout"
	default:
		res.Status = "error"
	}
	return res
}

var valuePair = regexp.MustCompile(`\(([^\s()]+)\s+(.*)\)`)

func parseModel(out string, inputs []ModelVar) map[string]string {
	m := map[string]string{}
	// output after first line: ((term value) (term value) ...)
	k := strings.Index(out, "\n")
	if k < 0 {
		return m
	}
	body := strings.TrimSpace(out[k+1:])
	// split top-level pairs
	depth := 0
	start := -1
	var pairs []string
	for i, r := range body {
		switch r {
		case '(':
			depth++
			if depth == 2 {
				start = i
			}
		case ')':
			if depth == 2 && start >= 0 {
				pairs = append(pairs, body[start:i+1])
				start = -1
			}
			depth--
		}
	}
	for i, p := range pairs {
		p = strings.TrimSpace(p)
		p = strings.TrimSuffix(strings.TrimPrefix(p, "("), ")")
		// the term is the first token or parenthesised group
		var term, val string
		if strings.HasPrefix(p, "(") {
			d := 0
			for j, r := range p {
				if r == '(' {
					d++
				}
				if r == ')' {
					d--
					if d == 0 {
						term, val = p[:j+1], strings.TrimSpace(p[j+1:])
						break
					}
				}
			}
		} else if sp := strings.IndexAny(p, " \n\t"); sp > 0 {
			term, val = p[:sp], strings.TrimSpace(p[sp:])
		}
		name := term
		if i < len(inputs) {
			name = inputs[i].Name
			if _, dup := m[name]; dup {
				name = fmt.Sprintf("%s#%d", name, i)
			}
		}
		m[name] = strings.Join(strings.Fields(val), " ")
	}
	return m
}

// discharge runs the solvers on one obligation.
func discharge(o *Oblig, timeoutS int, thorough bool) SolveResult {
	q := o.Query(false)
	if len(q) > 4<<20 {
		return SolveResult{Status: "error", Output: fmt.Sprintf("query too large (%d bytes)", len(q))}
	}
	var tried []string
	if o.Vacuity {
		// reachability: a cheap satisfiability probe; "unknown" means "not shown vacuous"
		r := runSolver(solvers[0], q, min(timeoutS, 3))
		r.Tried = []string{fmt.Sprintf("%s:%s:%.2fs", r.Solver, r.Status, r.TimeS)}
		return r
	}
	// stage 0: without the quantified assumptions (sound: fewer assumptions); most safety obligations end here
	qfSat := false
	{
		budget := min(timeoutS, 5)
		if quantified(o.Phi) {
			budget = min(timeoutS, 2)
		}
		r0 := runSolver(solvers[0], o.QueryQF(), budget)
		qfSat = r0.Status == "sat"
		tried = append(tried, fmt.Sprintf("%s(qf):%s:%.2fs", r0.Solver, r0.Status, r0.TimeS))
		if r0.Status == "unsat" {
			r0.Tried = tried
			r0.Solver += " (quantifier-free slice)"
			if !thorough {
				return r0
			}
		}
	}
	// all three solvers at once; the first decisive answer wins and the others are stopped (quantified goals are
	// decided now by one, now by another, and waiting for the first to time out costs more than the extra processes)
	var res SolveResult
	{
		rctx, stop := context.WithCancel(context.Background())
		ch := make(chan SolveResult, len(solvers))
		for _, sd := range solvers {
			go func(sd solverDef) { ch <- runSolverCtx(rctx, sd, q, timeoutS) }(sd)
		}
		decided := false
		var firstOther *SolveResult
		for i := 0; i < len(solvers); i++ {
			r := <-ch
			if decided {
				continue
			}
			tried = append(tried, fmt.Sprintf("%s:%s:%.2fs", r.Solver, r.Status, r.TimeS))
			if r.Status == "unsat" || r.Status == "sat" {
				res = r
				decided = true
				stop()
				continue
			}
			if firstOther == nil || r.Solver == solvers[0].name {
				rr := r
				firstOther = &rr
			}
		}
		stop()
		if !decided && firstOther != nil {
			res = *firstOther
		}
	}
	if res.Status != "unsat" && res.Status != "sat" && quantified(q) {
		// all three gave up: quantifier instantiation is sensitive to the search order, so two more attempts with other
		// random seeds (an `unsat` from any of them is as good as from the first)
		for _, seed := range []int{7, 23} {
			sd := solverDef{name: solvers[0].name, cmd: func(t int) []string {
				return []string{"z3-new", "-in", fmt.Sprintf("-T:%d", t), fmt.Sprintf("smt.random_seed=%d", seed), fmt.Sprintf("sat.random_seed=%d", seed)}
			}}
			r := runSolver(sd, q, max(timeoutS/2, 5))
			tried = append(tried, fmt.Sprintf("%s(seed %d):%s:%.2fs", r.Solver, seed, r.Status, r.TimeS))
			if r.Status == "unsat" {
				res = r
				break
			}
		}
	}
	if thorough && res.Status == "unsat" && !o.Vacuity {
		for _, sd := range solvers {
			if sd.name == res.Solver {
				continue
			}
			r := runSolver(sd, q, timeoutS)
			tried = append(tried, fmt.Sprintf("%s:%s:%.2fs", r.Solver, r.Status, r.TimeS))
			if r.Status == "unsat" {
				res.Second = r.Solver
				break
			}
			if r.Status == "sat" {
				// solvers disagree: not discharged
				res.Status = "unknown"
				res.Output = "solver disagreement: " + res.Solver + " unsat, " + r.Solver + " sat"
				break
			}
		}
	}
	if res.Status == "sat" && !o.Vacuity && len(o.Inputs) > 0 {
		// ask again for the model values
		for _, sd := range solvers {
			if sd.name == res.Solver {
				r := runSolver(sd, o.Query(true), timeoutS)
				if r.Status == "sat" {
					res.Model = parseModel(r.Output, o.Inputs)
				}
			}
		}
	}
	if res.Status != "unsat" && res.Status != "sat" && qfSat && len(o.Inputs) > 0 {
		// no model of the full query, but one of its quantifier-free slice: a candidate input for the replay on the
		// real code (which decides whether it is genuine)
		qm := strings.Replace(o.QueryQF(), "(check-sat)\n", "(check-sat)\n(get-value ("+modelTerms(o)+"))\n", 1)
		r := runSolver(solvers[0], qm, min(timeoutS, 5))
		if r.Status == "sat" {
			res.Model = parseModel(r.Output, o.Inputs)
			res.Output += "\n(model taken from the quantifier-free slice of the assumptions)"
		}
	}
	res.Tried = tried
	return res
}

func modelTerms(o *Oblig) string {
	var b strings.Builder
	for _, m := range o.Inputs {
		b.WriteString(m.Term + " ")
	}
	return b.String()
}

func dischargeAll(obs []*Oblig, timeoutS int, thorough bool, par int) []SolveResult {
	out := make([]SolveResult, len(obs))
	var wg sync.WaitGroup
	sem := make(chan struct{}, par)
	for i := range obs {
		wg.Add(1)
		sem <- struct{}{}
		go func(i int) {
			defer wg.Done()
			defer func() { <-sem }()
			out[i] = discharge(obs[i], timeoutS, thorough)
		}(i)
	}
	wg.Wait()
	// second chance: an obligation every solver gave up on is tried again when the pool is quiet, a third of the
	// processes and four times the time — a timeout that comes from a loaded machine (checks of several properties
	// running side by side) must not be reported as a violation; one that comes from the code is not cured by it
	var again []int
	for i, r := range out {
		if (r.Status == "timeout" || r.Status == "unknown" || r.Status == "error") && !obs[i].Vacuity {
			again = append(again, i)
		}
	}
	if len(again) > 0 && len(again) <= 200 {
		sem2 := make(chan struct{}, max(1, par/3))
		for _, i := range again {
			wg.Add(1)
			sem2 <- struct{}{}
			go func(i int) {
				defer wg.Done()
				defer func() { <-sem2 }()
				r := discharge(obs[i], timeoutS*4, thorough)
				r.Tried = append(append([]string{}, out[i].Tried...), append([]string{"second-chance:"}, r.Tried...)...)
				if r.Status == "unsat" || r.Status == "sat" {
					out[i] = r
				} else {
					out[i].Tried = r.Tried
				}
			}(i)
		}
		wg.Wait()
	}
	return out
}
