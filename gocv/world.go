package main

// World: loaded packages, function index, contract index.

import (
	"fmt"
	"go/ast"
	"go/token"
	"go/types"
	"os"
	"path/filepath"
	"sort"
	"strings"
	"sync"

	"golang.org/x/tools/go/packages"
)

type FuncInfo struct {
	Key     string // pkgpath|name
	Name    string // (*T).M, f, (*T).M$1
	Pkg     *packages.Package
	Decl    *ast.FuncDecl // enclosing declaration
	Lit     *ast.FuncLit  // non-nil for literals
	Obj     *types.Func   // nil for literals
	Body    *ast.BlockStmt
	Type    *ast.FuncType
	Recv    *ast.FieldList
	Spec    *FuncSpec
	Lits    []*ast.FuncLit // literals inside (source order), for Decl only
	Parent  *FuncInfo
	Ordinal int
	OnceArg bool // the literal is the callback of a sync.Once.Do call: executed inline in its parent, only there
}

type World struct {
	Fset        *token.FileSet
	Pkgs        map[string]*packages.Package
	declKeys    map[string]map[string]bool
	onces       map[string]string
	Funcs       map[string]*FuncInfo // by key
	ByObj       map[*types.Func]*FuncInfo
	ByLit       map[*ast.FuncLit]*FuncInfo
	Specs       map[string]*FuncSpec // by key (repo + deps)
	SFuncs      map[string]*SpecFunc
	Lemmas      map[string]*Lemma
	Ghosts      map[string]*GhostField // "pkg.Type.name"
	TypeSpec    map[string]*TypeSpec
	Axioms      []*Clause
	Files       []*SpecFile
	mods        map[string]*modSet
	PureGlobs   []string
	RepoDir     string
	allPkgs     []*types.Package
	direct      map[string]*directSummary
	nonnil      map[string]bool
	guards      map[string]string
	atomics     map[string]string
	freshLocals map[types.Object]int
	localSnap   map[string][]localDef
	renames     map[string]map[string]string
	renameMu    sync.Mutex
	Errors      []string
}

func shortPkg(path string) string {
	path = strings.TrimPrefix(path, "github.com/olive-io/bpmn/v2")
	path = strings.TrimPrefix(path, "github.com/olive-io/bpmn/")
	path = strings.TrimPrefix(path, "/")
	if path == "" {
		return "bpmn"
	}
	return path
}

func loadWorld(repo string, modfile string, patterns []string, tags string) (*World, error) {
	cfg := &packages.Config{
		Mode: packages.NeedName | packages.NeedFiles | packages.NeedSyntax | packages.NeedTypes |
			packages.NeedTypesInfo | packages.NeedImports | packages.NeedDeps | packages.NeedCompiledGoFiles,
		Dir:        repo,
		BuildFlags: []string{"-tags=" + tags, "-modfile=" + modfile},
		Env:        append(os.Environ(), "GOWORK=off", "GOFLAGS=-mod=mod", "GOPROXY=off", "GOSUMDB=off", "GOTOOLCHAIN=local"),
		ParseFile:  nil,
	}
	pkgs, err := packages.Load(cfg, patterns...)
	if err != nil {
		return nil, err
	}
	w := &World{Pkgs: map[string]*packages.Package{}, Funcs: map[string]*FuncInfo{}, ByObj: map[*types.Func]*FuncInfo{},
		ByLit: map[*ast.FuncLit]*FuncInfo{}, Specs: map[string]*FuncSpec{}, SFuncs: map[string]*SpecFunc{}, Lemmas: map[string]*Lemma{},
		Ghosts: map[string]*GhostField{}, TypeSpec: map[string]*TypeSpec{}, mods: map[string]*modSet{}, RepoDir: repo}
	for _, p := range pkgs {
		if len(p.Errors) > 0 {
			for _, e := range p.Errors {
				w.Errors = append(w.Errors, p.PkgPath+": "+e.Error())
			}
		}
		if w.Fset == nil {
			w.Fset = p.Fset
		}
		w.Pkgs[p.PkgPath] = p
		w.indexPackage(p)
	}
	if len(w.Errors) > 0 {
		return w, fmt.Errorf("load errors: %s", strings.Join(w.Errors, "; "))
	}
	return w, nil
}

func recvName(fd *ast.FuncDecl) string {
	if fd.Recv == nil || len(fd.Recv.List) == 0 {
		return ""
	}
	t := fd.Recv.List[0].Type
	star := ""
	if s, ok := t.(*ast.StarExpr); ok {
		star = "*"
		t = s.X
	}
	if ix, ok := t.(*ast.IndexExpr); ok {
		t = ix.X
	}
	if id, ok := t.(*ast.Ident); ok {
		if star != "" {
			return "(*" + id.Name + ")"
		}
		return id.Name
	}
	return "?"
}

func (w *World) indexPackage(p *packages.Package) {
	for _, f := range p.Syntax {
		for _, d := range f.Decls {
			fd, ok := d.(*ast.FuncDecl)
			if !ok || fd.Body == nil {
				continue
			}
			name := fd.Name.Name
			if r := recvName(fd); r != "" {
				name = r + "." + name
			}
			obj, _ := p.TypesInfo.Defs[fd.Name].(*types.Func)
			fi := &FuncInfo{Key: p.PkgPath + "|" + name, Name: name, Pkg: p, Decl: fd, Obj: obj, Body: fd.Body, Type: fd.Type, Recv: fd.Recv}
			w.Funcs[fi.Key] = fi
			if obj != nil {
				w.ByObj[obj] = fi
			}
			onceLits := map[*ast.FuncLit]bool{}
			ast.Inspect(fd.Body, func(x ast.Node) bool {
				call, ok := x.(*ast.CallExpr)
				if !ok || len(call.Args) != 1 {
					return true
				}
				lit, isLit := call.Args[0].(*ast.FuncLit)
				sel, isSel := call.Fun.(*ast.SelectorExpr)
				if isLit && isSel && sel.Sel.Name == "Do" {
					if f, ok := p.TypesInfo.Uses[sel.Sel].(*types.Func); ok && f.Pkg() != nil && f.Pkg().Path() == "sync" {
						onceLits[lit] = true
					}
				}
				return true
			})
			// literals in source order, with hierarchical names $1, $1$1 ...
			var walk func(n ast.Node, parent *FuncInfo)
			walk = func(n ast.Node, parent *FuncInfo) {
				k := 0
				ast.Inspect(n, func(x ast.Node) bool {
					if x == n {
						return true
					}
					if lit, ok := x.(*ast.FuncLit); ok {
						k++
						li := &FuncInfo{Key: fmt.Sprintf("%s$%d", parent.Key, k), Name: fmt.Sprintf("%s$%d", parent.Name, k), Pkg: p, Decl: fd, Lit: lit, Body: lit.Body, Type: lit.Type, Parent: parent, Ordinal: k, OnceArg: onceLits[lit]}
						w.Funcs[li.Key] = li
						w.ByLit[lit] = li
						parent.Lits = append(parent.Lits, lit)
						walk(lit.Body, li)
						return false
					}
					return true
				})
			}
			walk(fd.Body, fi)
		}
	}
}

// loadSpecs reads contract files: //@ lines of contracts_verif.go files in the
// loaded packages, and *.spec files under depsDir.
func (w *World) loadSpecs(depsDir string) error {
	var paths []string
	for _, p := range w.Pkgs {
		for _, f := range p.CompiledGoFiles {
			if strings.HasSuffix(f, "contracts_verif.go") {
				paths = append(paths, p.PkgPath+"\x00"+f)
			}
		}
	}
	sort.Strings(paths)
	for _, pp := range paths {
		k := strings.Index(pp, "\x00")
		if err := w.loadSpecFile(pp[k+1:], pp[:k], true); err != nil {
			return err
		}
	}
	deps, _ := filepath.Glob(filepath.Join(depsDir, "*.spec"))
	sort.Strings(deps)
	for _, d := range deps {
		if err := w.loadSpecFile(d, "", false); err != nil {
			return err
		}
	}
	return nil
}

func (w *World) loadSpecFile(path, pkgPath string, goFile bool) error {
	data, err := os.ReadFile(path)
	if err != nil {
		return err
	}
	var lines []string
	var nos []int
	for i, l := range strings.Split(string(data), "\n") {
		t := strings.TrimSpace(l)
		if goFile {
			if !strings.HasPrefix(t, "//@") {
				continue
			}
			t = strings.TrimPrefix(t, "//@")
		} else {
			if strings.HasPrefix(t, "//") {
				continue
			}
		}
		lines = append(lines, t)
		nos = append(nos, i+1)
	}
	sf, err := parseSpecText(path, pkgPath, lines, nos)
	if err != nil {
		return err
	}
	w.Files = append(w.Files, sf)
	for _, f := range sf.Funcs {
		if !goFile {
			f.Assumed = true
		}
		// deps may write the package into the name:  func sync/atomic.AddUint64
		if k := strings.Index(f.Name, "|"); k >= 0 {
			f.PkgPath = f.Name[:k]
			f.Name = f.Name[k+1:]
			f.Key = f.PkgPath + "|" + f.Name
		}
		if old, dup := w.Specs[f.Key]; dup {
			return fmt.Errorf("%s:%d: duplicate contract for %s (first at %s:%d)", path, f.Line, f.Key, old.File, old.Line)
		}
		w.Specs[f.Key] = f
		if f.Flags["pureglob"] != "" {
			w.PureGlobs = append(w.PureGlobs, f.Key)
		}
	}
	for _, s := range sf.SFuncs {
		w.SFuncs[s.Name] = s
	}
	for _, l := range sf.Lemmas {
		w.Lemmas[l.Name] = l
	}
	for _, g := range sf.Ghosts {
		w.Ghosts[g.Type+"."+g.Name] = g
	}
	for _, t := range sf.Types {
		if old, dup := w.TypeSpec[t.PkgPath+"|"+t.Name]; dup {
			// merge: a later block adds fields; the same field twice is an error
			for f, cls := range t.Fields {
				if _, twice := old.Fields[f]; twice {
					return fmt.Errorf("%s: field %s of type %s is classified twice", path, f, t.Name)
				}
				old.Fields[f] = cls
			}
			old.Invariants = append(old.Invariants, t.Invariants...)
			continue
		}
		w.TypeSpec[t.PkgPath+"|"+t.Name] = t
	}
	w.Axioms = append(w.Axioms, sf.Axioms...)
	return nil
}

// bind attaches contracts to functions; an unbound in-repo contract is an error.
func (w *World) bind() error {
	var errs []string
	for key, s := range w.Specs {
		if fi, ok := w.Funcs[key]; ok {
			fi.Spec = s
			continue
		}
		if !s.Assumed {
			errs = append(errs, fmt.Sprintf("%s:%d: contract-unbound: no function %s", s.File, s.Line, key))
			continue
		}
		// an assumed contract on a loaded package (interface methods, mostly) must name something that exists:
		// a misspelt key would silently be no contract at all
		if pkg := w.Pkgs[s.PkgPath]; pkg != nil && pkg.Types != nil && s.Flags["pureglob"] == "" {
			if !w.declaredKeys(pkg)[key] {
				errs = append(errs, fmt.Sprintf("%s:%d: contract-unbound: package %s declares no %s", s.File, s.Line, s.PkgPath, s.Name))
			}
		}
	}
	for _, key := range sortedKeys(w.Specs) {
		if err := w.resolveModifies(w.Specs[key]); err != nil {
			errs = append(errs, err.Error())
		}
	}
	sort.Strings(errs)
	if len(errs) > 0 {
		return fmt.Errorf("%s", strings.Join(errs, "\n"))
	}
	return nil
}

// declaredKeys: the contract keys of every function and method (of named types, interfaces included) a package declares.
func (w *World) declaredKeys(pkg *packages.Package) map[string]bool {
	if w.declKeys == nil {
		w.declKeys = map[string]map[string]bool{}
	}
	if m, ok := w.declKeys[pkg.PkgPath]; ok {
		return m
	}
	m := map[string]bool{}
	sc := pkg.Types.Scope()
	for _, n := range sc.Names() {
		switch o := sc.Lookup(n).(type) {
		case *types.Func:
			m[funcKeyOf(o)] = true
		case *types.TypeName:
			nt, ok := o.Type().(*types.Named)
			if !ok {
				continue
			}
			for i := 0; i < nt.NumMethods(); i++ {
				m[funcKeyOf(nt.Method(i))] = true
			}
			if it, ok := nt.Underlying().(*types.Interface); ok {
				for i := 0; i < it.NumExplicitMethods(); i++ {
					m[pkg.PkgPath+"|"+o.Name()+"."+it.ExplicitMethod(i).Name()] = true
				}
			}
		}
	}
	w.declKeys[pkg.PkgPath] = m
	return m
}

// funcKeyOf returns the contract key for a *types.Func (methods: by receiver's named type).
func funcKeyOf(f *types.Func) string {
	sig := f.Type().(*types.Signature)
	pkg := ""
	if f.Pkg() != nil {
		pkg = f.Pkg().Path()
	}
	if r := sig.Recv(); r != nil {
		t := types.Unalias(r.Type())
		star := false
		if p, ok := t.(*types.Pointer); ok {
			star = true
			t = types.Unalias(p.Elem())
		}
		if n, ok := t.(*types.Named); ok {
			if n.Obj().Pkg() != nil {
				pkg = n.Obj().Pkg().Path()
			}
			if _, isIface := n.Underlying().(*types.Interface); isIface {
				return pkg + "|" + n.Obj().Name() + "." + f.Name()
			}
			if star {
				return pkg + "|(*" + n.Obj().Name() + ")." + f.Name()
			}
			return pkg + "|" + n.Obj().Name() + "." + f.Name()
		}
		return pkg + "|?." + f.Name()
	}
	return pkg + "|" + f.Name()
}

func (w *World) pos(p token.Pos) token.Position { return w.Fset.Position(p) }

// nonNilField: the contract files declare the field (heap key F:pkg.Type.field) as never nil:
//
//	type T
//	  field f nonnil
func (w *World) nonNilField(key string) bool {
	if w.nonnil == nil {
		w.nonnil = map[string]bool{}
		for _, ts := range w.TypeSpec {
			pkg := w.Pkgs[ts.PkgPath]
			if pkg == nil {
				continue
			}
			for f, cls := range ts.Fields {
				if strings.Contains(cls, "nonnil") {
					if ts.Name == "$globals" {
						w.nonnil["GV:"+pkg.Name+"."+f] = true
						continue
					}
					w.nonnil["F:"+sanitize(pkg.Name+"."+ts.Name)+"."+f] = true
				}
			}
		}
		// package-level variables that are initialised where they are declared with make(...), a composite literal or
		// &T{...} and are never assigned anywhere in their package are never nil (package initialisation happens
		// before any function under contract runs)
		for _, pkg := range w.Pkgs {
			if pkg.TypesInfo == nil {
				continue
			}
			cand := map[types.Object]bool{}
			for _, f := range pkg.Syntax {
				for _, d := range f.Decls {
					gd, ok := d.(*ast.GenDecl)
					if !ok || gd.Tok != token.VAR {
						continue
					}
					for _, sp := range gd.Specs {
						vs := sp.(*ast.ValueSpec)
						if len(vs.Values) != len(vs.Names) {
							continue
						}
						for i, n := range vs.Names {
							switch v := unparen(vs.Values[i]).(type) {
							case *ast.CompositeLit:
								cand[pkg.TypesInfo.Defs[n]] = true
							case *ast.UnaryExpr:
								if _, isLit := unparen(v.X).(*ast.CompositeLit); isLit && v.Op == token.AND {
									cand[pkg.TypesInfo.Defs[n]] = true
								}
							case *ast.CallExpr:
								if id, ok := unparen(v.Fun).(*ast.Ident); ok && id.Name == "make" {
									if _, isB := pkg.TypesInfo.Uses[id].(*types.Builtin); isB {
										cand[pkg.TypesInfo.Defs[n]] = true
									}
								}
							}
						}
					}
				}
			}
			if len(cand) == 0 {
				continue
			}
			for _, f := range pkg.Syntax {
				ast.Inspect(f, func(n ast.Node) bool {
					switch x := n.(type) {
					case *ast.AssignStmt:
						for _, l := range x.Lhs {
							if id, ok := unparen(l).(*ast.Ident); ok {
								delete(cand, pkg.TypesInfo.Uses[id])
							}
						}
					case *ast.UnaryExpr:
						if x.Op == token.AND {
							if id, ok := unparen(x.X).(*ast.Ident); ok {
								delete(cand, pkg.TypesInfo.Uses[id]) // address taken: may be written through the pointer
							}
						}
					}
					return true
				})
			}
			for obj := range cand {
				if obj != nil {
					w.nonnil["GV:"+pkg.Name+"."+obj.Name()] = true
				}
			}
		}
	}
	return w.nonnil[key]
}

// guardOf: lock field key guarding the given field heap key ("" if none):
//
//	type T
//	  field f guarded_by mu
func (w *World) guardOf(key string) string {
	if w.guards == nil {
		w.guards = map[string]string{}
		for _, ts := range w.TypeSpec {
			pkg := w.Pkgs[ts.PkgPath]
			if pkg == nil {
				continue
			}
			for f, cls := range ts.Fields {
				fs := strings.Fields(cls)
				for i, x := range fs {
					if x == "guarded_by" && i+1 < len(fs) {
						if ts.Name == "$globals" {
							w.guards["GV:"+pkg.Name+"."+f] = "GV:" + pkg.Name + "." + fs[i+1]
							continue
						}
						w.guards["F:"+sanitize(pkg.Name+"."+ts.Name)+"."+f] = "F:" + sanitize(pkg.Name+"."+ts.Name) + "." + fs[i+1]
					}
				}
			}
		}
	}
	return w.guards[key]
}

// closedOnceBy: for a channel field declared `closed_once_by f`, the heap key of the sync.Once field f of the same object.
func (w *World) closedOnceBy(key string) string {
	if w.onces == nil {
		w.onces = map[string]string{}
		for _, ts := range w.TypeSpec {
			pkg := w.Pkgs[ts.PkgPath]
			if pkg == nil {
				continue
			}
			for f, cls := range ts.Fields {
				fs := strings.Fields(cls)
				for i, x := range fs {
					if x == "closed_once_by" && i+1 < len(fs) {
						w.onces["F:"+sanitize(pkg.Name+"."+ts.Name)+"."+f] = "F:" + sanitize(pkg.Name+"."+ts.Name) + "." + fs[i+1]
					}
				}
			}
		}
	}
	return w.onces[key]
}

// atomicClass: "" (none), "atomic" (sync/atomic access only), "atomic rmw" (additionally: never written by a
// plain atomic Store — only Add / CompareAndSwap / Swap may change it, so that read-modify-write is one step).
func (w *World) atomicClass(key string) string {
	if w.atomics == nil {
		w.atomics = map[string]string{}
		for _, ts := range w.TypeSpec {
			pkg := w.Pkgs[ts.PkgPath]
			if pkg == nil {
				continue
			}
			for f, cls := range ts.Fields {
				fs := strings.Fields(cls)
				for i, x := range fs {
					if x == "atomic" {
						c := "atomic"
						if i+1 < len(fs) && fs[i+1] == "rmw" {
							c = "atomic rmw"
						}
						w.atomics["F:"+sanitize(pkg.Name+"."+ts.Name)+"."+f] = c
					}
				}
			}
		}
	}
	return w.atomics[key]
}
