package main

// Forward symbolic execution of function bodies over the typed AST.

import (
	"fmt"
	"go/ast"
	"go/constant"
	"go/token"
	"go/types"
	"strings"

	"golang.org/x/tools/go/packages"
)

type jumpCtx struct {
	label     string
	isLoop    bool
	isSwitch  bool
	breaks    []*State
	continues []*State
	gotoLabel string              // label of the first statement of the loop body (goto L == continue)
	fwd       map[string][]*State // forward gotos to labels of a statement list
	passed    []string
}

type retCtx struct {
	returns []*State
	results []types.Object
}

type Fx struct {
	c             *Ctx
	w             *World
	fi            *FuncInfo
	defensiveSeen map[string]bool
	assertSeen    map[*AssertAt]bool
	pkg           *packages.Package
	info          *types.Info
	entry         *State
	ret           []*retCtx
	jumps         []*jumpCtx
	loopOrd       int
	selRecv       []string // channels received from by the selects whose case bodies are being executed
	maxLoopOrd    int // highest loop ordinal met (loop contracts beyond it bind to nothing)
	spec          *FuncSpec
	params        []types.Object
	recv          types.Object
	inline        int
	pendingLabel  string
	litVals       map[*ast.FuncLit]string
	curPos        token.Pos
	loadKey       string
	noGuard       bool
	inAtomic      bool
	onceStack     []string // addresses of the sync.Once values whose Do callbacks are being executed
	loadFromEntry bool
	pathMode      bool  // explore paths separately (flag paths)
	prefix        []int // decisions to replay
	taken         []int
	arity         []int
	tailStmt      ast.Stmt // last statement of the function body when only a bare return follows it
	loopHeads     map[string]*State
	stepLoops     []*stepLoop // enclosing loops with `step ensures` clauses (innermost last)
	loopEntries   map[string]*State
	countLoops    map[string]countLoop
}

type unsupported struct{ msg string }

func (u unsupported) Error() string { return "unsupported: " + u.msg }

func (fx *Fx) unsup(n ast.Node, f string, a ...any) {
	pos := fx.w.pos(n.Pos())
	panic(unsupported{fmt.Sprintf("%s at %s:%d", fmt.Sprintf(f, a...), shortFile(pos.Filename), pos.Line)})
}

func shortFile(f string) string {
	f = strings.TrimPrefix(f, "/repo/")
	return f
}

// ---------------------------------------------------------------------------
// statements

func (fx *Fx) execBlock(st *State, stmts []ast.Stmt) {
	// labels of this statement list are targets of forward gotos
	var jc *jumpCtx
	for _, s := range stmts {
		if ls, ok := s.(*ast.LabeledStmt); ok {
			if jc == nil {
				jc = &jumpCtx{fwd: map[string][]*State{}}
			}
			jc.fwd[ls.Label.Name] = nil
		}
	}
	if jc != nil {
		fx.jumps = append(fx.jumps, jc)
		defer func() { fx.jumps = fx.jumps[:len(fx.jumps)-1] }()
	}
	for _, s := range stmts {
		if ls, ok := s.(*ast.LabeledStmt); ok && jc != nil {
			if pend := jc.fwd[ls.Label.Name]; len(pend) > 0 {
				*st = *mergeStates(fx.c, append([]*State{st}, pend...))
				jc.fwd[ls.Label.Name] = nil
			}
			jc.passed = append(jc.passed, ls.Label.Name)
		}
		if st.dead {
			// a later label may still be reached by a pending goto
			if jc == nil {
				return
			}
			continue
		}
		fx.exec(st, s)
	}
}

func (fx *Fx) kill(st *State) {
	st.dead = true
	st.pc = "false"
}

func (fx *Fx) exec(st *State, s ast.Stmt) {
	if st.dead {
		return
	}
	fx.curPos = s.Pos()
	if fx.spec != nil && len(fx.spec.Asserts) > 0 {
		if _, isBlock := s.(*ast.BlockStmt); !isBlock {
			txt := fx.exprText(s)
			for _, a := range fx.spec.Asserts {
				if strings.HasPrefix(txt, a.Anchor) || (len(a.Anchor) > 60 && strings.HasPrefix(a.Anchor, txt)) {
					if fx.assertSeen == nil {
						fx.assertSeen = map[*AssertAt]bool{}
					}
					fx.assertSeen[a] = true
					env := fx.specEnv(st, fx.entry, s.Pos())
					phi := fx.specBool(env, a.C.Expr)
					nm := a.C.Name
					if nm == "" {
						nm = a.Anchor
					}
					fx.c.oblige(st, "assert", "before("+nm+")", phi, a.C.Text, fx.w.pos(s.Pos()))
					st.assume(phi)
				}
			}
		}
	}
	switch s := s.(type) {
	case *ast.BlockStmt:
		fx.execBlock(st, s.List)
	case *ast.ExprStmt:
		fx.evalMulti(st, s.X)
	case *ast.EmptyStmt:
	case *ast.DeclStmt:
		gd := s.Decl.(*ast.GenDecl)
		if gd.Tok != token.VAR {
			return
		}
		for _, sp := range gd.Specs {
			vs := sp.(*ast.ValueSpec)
			if len(vs.Values) == 0 {
				for _, n := range vs.Names {
					obj := fx.info.Defs[n]
					if obj == nil {
						continue
					}
					fx.declVar(st, obj, Val{T: fx.c.zero(obj.Type()), S: fx.c.sortOf(obj.Type()), GT: obj.Type()})
				}
				continue
			}
			if len(vs.Values) == 1 && len(vs.Names) > 1 {
				vals := fx.evalMulti(st, vs.Values[0])
				for i, n := range vs.Names {
					if obj := fx.info.Defs[n]; obj != nil {
						fx.declVar(st, obj, fx.convertTo(st, vals[i], obj.Type()))
					}
				}
				continue
			}
			for i, n := range vs.Names {
				v := fx.eval(st, vs.Values[i])
				if obj := fx.info.Defs[n]; obj != nil {
					fx.declVar(st, obj, fx.convertTo(st, v, obj.Type()))
				}
			}
		}
	case *ast.AssignStmt:
		fx.execAssign(st, s)
	case *ast.IncDecStmt:
		loc := fx.lvalue(st, s.X)
		v := fx.readLoc(st, loc)
		op := "+"
		if s.Tok == token.DEC {
			op = "-"
		}
		fx.writeLoc(st, loc, Val{T: fmt.Sprintf("(%s %s 1)", op, v.T), S: v.S, GT: v.GT})
	case *ast.IfStmt:
		if s.Init != nil {
			fx.exec(st, s.Init)
		}
		cond := fx.eval(st, s.Cond)
		if fx.spec != nil && len(fx.spec.Defensive) > 0 {
			txt := fx.exprText(s.Cond)
			for _, d := range fx.spec.Defensive {
				if d == txt || (len(d) > 60 && d[:60] == txt) {
					if fx.defensiveSeen == nil {
						fx.defensiveSeen = map[string]bool{}
					}
					fx.defensiveSeen[d] = true
					fx.c.oblige(st, "dead", "if("+txt+")", "(not "+cond.T+")", "the branch declared defensive is unreachable: "+txt, fx.w.pos(s.Pos()))
					st.assume("(not " + cond.T + ")")
					if s.Else != nil {
						fx.exec(st, s.Else)
					}
					return
				}
			}
		}
		fx.branch(st, cond.T, func(t *State) { fx.exec(t, s.Body) }, func(e *State) {
			if s.Else != nil {
				fx.exec(e, s.Else)
			}
		})
	case *ast.ForStmt:
		fx.execFor(st, s)
	case *ast.RangeStmt:
		fx.execRange(st, s)
	case *ast.SwitchStmt:
		fx.execSwitch(st, s)
	case *ast.TypeSwitchStmt:
		fx.execTypeSwitch(st, s)
	case *ast.SelectStmt:
		fx.execSelect(st, s)
	case *ast.ReturnStmt:
		fx.execReturn(st, s)
	case *ast.BranchStmt:
		fx.execBranch(st, s)
	case *ast.LabeledStmt:
		fx.pendingLabel = s.Label.Name
		fx.exec(st, s.Stmt)
	case *ast.GoStmt:
		fx.execGo(st, s)
	case *ast.DeferStmt:
		fx.execDefer(st, s)
	case *ast.SendStmt:
		ch := fx.eval(st, s.Chan)
		v := fx.eval(st, s.Value)
		elem := chanElem(ch.GT)
		if elem != nil {
			v = fx.convertTo(st, v, elem)
		}
		if len(fx.c.locks) > 0 {
			// a goroutine that blocks in a send while it holds a mutex keeps the mutex for ever if nobody receives: the
			// send must be unable to block — a buffered channel this activation has not sent to yet (that no other
			// goroutine sends on it is not checked)
			var held []string
			for _, mu := range fx.c.locks {
				held = append(held, fmt.Sprintf("(not (= (select %s %s) 0))", fx.lkHeap(st), mu))
			}
			cnc := fmt.Sprintf("(select (select %s %d) %s)", st.heap("CNC", cntSort), evKinds["Send"], ch.T)
			cnc0 := fmt.Sprintf("(select (select %s %d) %s)", fx.entry.heap("CNC", cntSort), evKinds["Send"], ch.T)
			phi := fmt.Sprintf("(=> (or %s) (and (>= (select %s %s) 1) (= %s %s)))", strings.Join(held, " "), st.heap("CP", "(Array Int Int)"), ch.T, cnc, cnc0)
			fx.c.oblige(st, "blocking", "send-under-lock("+fx.exprText(s.Chan)+")", phi, "a send made while holding a mutex cannot block: "+fx.exprText(s.Chan)+" is buffered and not yet sent to by this activation", fx.w.pos(s.Pos()))
		}
		if fx.spec != nil && fx.spec.Flags["nonblocking"] != "" {
			// the function promises to return in bounded time: a send outside a select with a default branch may only go
			// to a buffered channel this activation created and has not sent to yet (nobody else can have filled it)
			cnc := fmt.Sprintf("(select (select %s %d) %s)", st.heap("CNC", cntSort), evKinds["Send"], ch.T)
			cnc0 := fmt.Sprintf("(select (select %s %d) %s)", fx.entry.heap("CNC", cntSort), evKinds["Send"], ch.T)
			phi := fmt.Sprintf("(and (> %s %s) (>= (select %s %s) 1) (= %s %s))", ch.T, fx.entry.alloc, st.heap("CP", "(Array Int Int)"), ch.T, cnc, cnc0)
			fx.c.oblige(st, "blocking", "send("+fx.exprText(s.Chan)+")", phi, "send cannot block: "+fx.exprText(s.Chan)+" is a buffered channel created here and not yet sent to (otherwise use select with default)", fx.w.pos(s.Pos()))
		}
		for _, r := range fx.selRecv {
			// structural: the same channel expression as one the enclosing select receives from (semantic equality of
			// channels of one type cannot be refuted locally and would alarm on every reply channel)
			if r == fx.exprText(s.Chan) {
				fx.c.oblige(st, "blocking", "self-send("+fx.exprText(s.Chan)+")", "false", "a send made inside a select's case body does not go to the channel that select receives from (its reader is busy here: the send blocks for ever once the buffer is full)", fx.w.pos(s.Pos()))
			}
		}
		fx.chanSend(st, ch, v, s)
	default:
		fx.unsup(s, "statement %T", s)
	}
}

func chanElem(t types.Type) types.Type {
	if t == nil {
		return nil
	}
	if c, ok := types.Unalias(t).Underlying().(*types.Chan); ok {
		return c.Elem()
	}
	return nil
}

func (fx *Fx) declVar(st *State, obj types.Object, v Val) {
	if fx.c.boxedVars[obj] {
		// cell allocated on the heap
		if s, named, isPtr := structOf(obj.Type()); s != nil && !isPtr && !opaqueNamed(named) {
			r := st.allocRef()
			fx.writeStructAt(st, r, obj.Type(), v)
			st.vars[obj] = r
			return
		}
		r := st.allocRef()
		key := "P:" + typeKey(obj.Type())
		srt := fx.c.sortOf(obj.Type())
		h := st.heap(key, "(Array Int "+srt+")")
		st.setHeap(key, "(Array Int "+srt+")", fmt.Sprintf("(store %s %s %s)", h, r, v.T))
		st.vars[obj] = r
		return
	}
	st.vars[obj] = fx.c.define(obj.Name(), v.S, v.T)
}

// branch forks st on cond, runs both sides, and merges the normal exits back into st.
func (fx *Fx) branch(st *State, cond string, thenF, elseF func(*State)) {
	if cond == "true" {
		thenF(st)
		return
	}
	if cond == "false" {
		elseF(st)
		return
	}
	cd := fx.c.define("c", "Bool", cond)
	if fx.pathMode && !fx.c.dry {
		if fx.decide(2) == 0 {
			st.assume(cd)
			thenF(st)
		} else {
			st.assume("(not " + cd + ")")
			elseF(st)
		}
		return
	}
	t := st.clone()
	t.assume(cd)
	e := st.clone()
	e.assume("(not " + cd + ")")
	thenF(t)
	elseF(e)
	m := mergeStates(fx.c, []*State{t, e})
	*st = *m
}

func (fx *Fx) execAssign(st *State, s *ast.AssignStmt) {
	define := s.Tok == token.DEFINE
	if s.Tok != token.ASSIGN && s.Tok != token.DEFINE {
		// op-assign
		loc := fx.lvalue(st, s.Lhs[0])
		l := fx.readLoc(st, loc)
		r := fx.eval(st, s.Rhs[0])
		var op token.Token
		switch s.Tok {
		case token.ADD_ASSIGN:
			op = token.ADD
		case token.SUB_ASSIGN:
			op = token.SUB
		case token.MUL_ASSIGN:
			op = token.MUL
		case token.QUO_ASSIGN:
			op = token.QUO
		case token.REM_ASSIGN:
			op = token.REM
		case token.SHL_ASSIGN:
			op = token.SHL
		case token.SHR_ASSIGN:
			op = token.SHR
		case token.AND_ASSIGN:
			op = token.AND
		case token.OR_ASSIGN:
			op = token.OR
		case token.XOR_ASSIGN:
			op = token.XOR
		case token.AND_NOT_ASSIGN:
			op = token.AND_NOT
		default:
			fx.unsup(s, "assignment operator %s", s.Tok)
		}
		v := fx.binop(st, op, l, r, s)
		fx.writeLoc(st, loc, v)
		return
	}
	var vals []Val
	if len(s.Rhs) == 1 && len(s.Lhs) > 1 {
		vals = fx.evalMulti(st, s.Rhs[0])
		if len(vals) != len(s.Lhs) {
			fx.unsup(s, "assignment arity mismatch (%d values for %d targets)", len(vals), len(s.Lhs))
		}
	} else {
		// Go evaluates the operands of index expressions and pointer indirections on the left and the
		// expressions on the right in the usual order, then assigns left to right; evaluate RHS first,
		// which is equivalent for side-effect-free left operands.
		for _, r := range s.Rhs {
			vals = append(vals, fx.eval(st, r))
		}
	}
	// locations for plain assignment are resolved before any write (a[i], a[j] = a[j], a[i])
	locs := make([]*Loc, len(s.Lhs))
	for i, l := range s.Lhs {
		if id, ok := l.(*ast.Ident); ok {
			if id.Name == "_" {
				locs[i] = &Loc{kind: locBlank}
				continue
			}
			if define {
				if obj := fx.info.Defs[id]; obj != nil {
					locs[i] = &Loc{kind: locNew, obj: obj, T: obj.Type()}
					continue
				}
			}
		}
		locs[i] = fx.lvalue(st, l)
	}
	for i, loc := range locs {
		switch loc.kind {
		case locBlank:
		case locNew:
			fx.declVar(st, loc.obj, fx.convertTo(st, vals[i], loc.T))
		default:
			fx.writeLoc(st, loc, fx.convertTo(st, vals[i], loc.locType()))
		}
	}
}

func (fx *Fx) execReturn(st *State, s *ast.ReturnStmt) {
	rc := fx.ret[len(fx.ret)-1]
	if len(s.Results) > 0 {
		var vals []Val
		if len(s.Results) == 1 && len(rc.results) > 1 {
			vals = fx.evalMulti(st, s.Results[0])
		} else {
			for _, r := range s.Results {
				vals = append(vals, fx.eval(st, r))
			}
		}
		for i, obj := range rc.results {
			v := fx.convertTo(st, vals[i], obj.Type())
			st.vars[obj] = fx.c.define("ret", v.S, v.T)
		}
	}
	fx.doReturn(st)
}

// stepLoop: a loop with `step ensures` clauses whose body is being executed.
type stepLoop struct {
	lp    *loopParts
	head  *State
	depth int // len(fx.ret) when the loop was entered: only returns of that very function leave the loop's function
	nret  int
}

func (fx *Fx) doReturn(st *State) {
	rc := fx.ret[len(fx.ret)-1]
	// a return from inside a loop with per-turn clauses ends a turn: the clauses hold there too (before deferred calls)
	if !st.dead {
		for _, sl := range fx.stepLoops {
			if sl.depth != len(fx.ret) {
				continue
			}
			sl.nret++
			tag := fmt.Sprintf("loop%d", sl.lp.ord)
			for k, it := range sl.lp.spec.Step {
				parts := splitConj(it.Expr)
				for pi, pe := range parts {
					a := clauseAnchor(tag, it, k)
					if len(parts) > 1 {
						a = fmt.Sprintf("%s.c%d", a, pi+1)
					}
					phi, ok := fx.specBoolIfInScope(fx.specEnv(st, sl.head, sl.lp.body.Lbrace+1), pe)
					if !ok {
						continue
					}
					fx.c.oblige(st, "iter", fmt.Sprintf("%s.return%d", a, sl.nret), phi, it.Text, fx.w.pos(sl.lp.node.Pos()))
				}
			}
		}
	}
	r := st.clone()
	fx.runDefers(r, rc)
	if !r.dead {
		rc.returns = append(rc.returns, r)
	}
	fx.kill(st)
}

func (fx *Fx) execBranch(st *State, s *ast.BranchStmt) {
	label := ""
	if s.Label != nil {
		label = s.Label.Name
	}
	switch s.Tok {
	case token.BREAK:
		for i := len(fx.jumps) - 1; i >= 0; i-- {
			j := fx.jumps[i]
			if !j.isLoop && !j.isSwitch {
				continue
			}
			if label == "" || j.label == label {
				j.breaks = append(j.breaks, st.clone())
				fx.kill(st)
				return
			}
		}
	case token.CONTINUE:
		for i := len(fx.jumps) - 1; i >= 0; i-- {
			j := fx.jumps[i]
			if j.isLoop && (label == "" || j.label == label) {
				j.continues = append(j.continues, st.clone())
				fx.kill(st)
				return
			}
		}
	case token.GOTO:
		for i := len(fx.jumps) - 1; i >= 0; i-- {
			j := fx.jumps[i]
			if j.isLoop && j.gotoLabel == label {
				j.continues = append(j.continues, st.clone())
				fx.kill(st)
				return
			}
			if j.fwd != nil {
				if _, ok := j.fwd[label]; ok {
					back := false
					for _, p := range j.passed {
						if p == label {
							back = true
						}
					}
					if back {
						continue // a backward goto: only the loop-head form is supported (found further out)
					}
					j.fwd[label] = append(j.fwd[label], st.clone())
					fx.kill(st)
					return
				}
			}
		}
	}
	fx.unsup(s, "branch statement %s %s", s.Tok, label)
}

func (fx *Fx) takeLabel() string {
	l := fx.pendingLabel
	fx.pendingLabel = ""
	return l
}

// ---------------------------------------------------------------------------
// switch / type switch / select

func (fx *Fx) execSwitch(st *State, s *ast.SwitchStmt) {
	label := fx.takeLabel()
	if s.Init != nil {
		fx.exec(st, s.Init)
	}
	var tag *Val
	if s.Tag != nil {
		v := fx.eval(st, s.Tag)
		v.T = fx.c.define("tag", v.S, v.T)
		tag = &v
	}
	jc := &jumpCtx{label: label, isSwitch: true}
	fx.jumps = append(fx.jumps, jc)
	var outs []*State
	rest := st.clone()
	var defaultClause *ast.CaseClause
	for _, cl := range s.Body.List {
		cc := cl.(*ast.CaseClause)
		if cc.List == nil {
			defaultClause = cc
			continue
		}
		if rest.dead {
			break
		}
		var conds []string
		for _, e := range cc.List {
			v := fx.eval(rest, e)
			if tag != nil {
				conds = append(conds, fx.eqTerm(rest, *tag, v))
			} else {
				conds = append(conds, v.T)
			}
		}
		cond := conds[0]
		if len(conds) > 1 {
			cond = "(or " + strings.Join(conds, " ") + ")"
		}
		cd := fx.c.define("sw", "Bool", cond)
		t := rest.clone()
		t.assume(cd)
		rest.assume("(not " + cd + ")")
		fx.execCaseBody(t, cc.Body)
		outs = append(outs, t)
	}
	if defaultClause != nil && !rest.dead {
		fx.execCaseBody(rest, defaultClause.Body)
	}
	outs = append(outs, rest)
	fx.jumps = fx.jumps[:len(fx.jumps)-1]
	outs = append(outs, jc.breaks...)
	*st = *mergeStates(fx.c, outs)
}

func (fx *Fx) execCaseBody(st *State, body []ast.Stmt) {
	for _, b := range body {
		if br, ok := b.(*ast.BranchStmt); ok && br.Tok == token.FALLTHROUGH {
			fx.unsup(b, "fallthrough")
		}
	}
	fx.execBlock(st, body)
}

func (fx *Fx) execTypeSwitch(st *State, s *ast.TypeSwitchStmt) {
	label := fx.takeLabel()
	if s.Init != nil {
		fx.exec(st, s.Init)
	}
	var x ast.Expr
	var bind *ast.Ident
	switch a := s.Assign.(type) {
	case *ast.ExprStmt:
		x = a.X.(*ast.TypeAssertExpr).X
	case *ast.AssignStmt:
		x = a.Rhs[0].(*ast.TypeAssertExpr).X
		bind = a.Lhs[0].(*ast.Ident)
	}
	_ = bind
	v := fx.eval(st, x)
	v.T = fx.c.define("ts", "Iface", v.T)
	jc := &jumpCtx{label: label, isSwitch: true}
	fx.jumps = append(fx.jumps, jc)
	var outs []*State
	rest := st.clone()
	var defaultClause *ast.CaseClause
	for _, cl := range s.Body.List {
		cc := cl.(*ast.CaseClause)
		if cc.List == nil {
			defaultClause = cc
			continue
		}
		if rest.dead {
			break
		}
		var conds []string
		var single types.Type
		for _, e := range cc.List {
			tv := fx.info.Types[e]
			if tv.IsNil() {
				conds = append(conds, fmt.Sprintf("(= (i_tag %s) 0)", v.T))
				continue
			}
			conds = append(conds, fx.typeTest(rest, v, tv.Type))
			single = tv.Type
		}
		cond := conds[0]
		if len(conds) > 1 {
			cond = "(or " + strings.Join(conds, " ") + ")"
			single = nil
		}
		cd := fx.c.define("tsw", "Bool", cond)
		t := rest.clone()
		t.assume(cd)
		rest.assume("(not " + cd + ")")
		if obj := fx.info.Implicits[cc]; obj != nil {
			if single != nil {
				uv := fx.fromIface(t, v, single)
				uv.T = fx.c.define("tsv", uv.S, uv.T)
				fx.boundRefs(t, uv.T, single, 0)
				fx.declVar(t, obj, uv)
				fx.assumeRecvInv(t, uv, single, cc.Pos())
			} else {
				fx.declVar(t, obj, v)
			}
		}
		if t.ghost != nil {
			t.ghost["tcase"] = fmt.Sprint(fx.caseTag(cc))
		}
		fx.execCaseBody(t, cc.Body)
		outs = append(outs, t)
	}
	if defaultClause != nil && !rest.dead {
		if obj := fx.info.Implicits[defaultClause]; obj != nil {
			fx.declVar(rest, obj, v)
		}
		fx.execCaseBody(rest, defaultClause.Body)
	}
	outs = append(outs, rest)
	fx.jumps = fx.jumps[:len(fx.jumps)-1]
	outs = append(outs, jc.breaks...)
	*st = *mergeStates(fx.c, outs)
}

func (fx *Fx) caseTag(cc *ast.CaseClause) int {
	if len(cc.List) == 1 {
		if tv, ok := fx.info.Types[cc.List[0]]; ok && tv.IsType() {
			return fx.c.typeTag(tv.Type)
		}
	}
	return -1
}

// typeTest: does interface value v hold dynamic type t (concrete) / implement t (interface)?
func (fx *Fx) typeTest(st *State, v Val, t types.Type) string {
	if _, isIf := types.Unalias(t).Underlying().(*types.Interface); isIf {
		// implements: decided by an uninterpreted predicate on the tag, non-nil required
		name := "impl_" + typeKey(t)
		fx.c.declareFun(name, []string{"Int"}, "Bool")
		// every concrete type known to the context whose method set satisfies t
		return fmt.Sprintf("(and (not (= (i_tag %s) 0)) (%s (i_tag %s)))", v.T, name, v.T)
	}
	return fmt.Sprintf("(= (i_tag %s) %d)", v.T, fx.c.typeTag(t))
}

// fromIface extracts the value of (concrete or interface) type t from interface value v.
func (fx *Fx) fromIface(st *State, v Val, t types.Type) Val {
	if _, isIf := types.Unalias(t).Underlying().(*types.Interface); isIf {
		return Val{T: v.T, S: "Iface", GT: t}
	}
	return fx.c.unbox(v.T, t)
}

func (fx *Fx) execSelect(st *State, s *ast.SelectStmt) {
	label := fx.takeLabel()
	jc := &jumpCtx{label: label, isSwitch: true}
	fx.jumps = append(fx.jumps, jc)
	choice := fx.c.freshConst("sel", "Int")
	// channel operands are evaluated once, in source order, before the choice
	type prepared struct {
		cc *ast.CommClause
		ch Val
		v  Val
	}
	var preps []prepared
	for _, cl := range s.Body.List {
		cc := cl.(*ast.CommClause)
		p := prepared{cc: cc}
		switch c := cc.Comm.(type) {
		case nil:
		case *ast.SendStmt:
			p.ch = fx.eval(st, c.Chan)
			p.v = fx.eval(st, c.Value)
		case *ast.ExprStmt:
			p.ch = fx.eval(st, unparen(c.X).(*ast.UnaryExpr).X)
		case *ast.AssignStmt:
			p.ch = fx.eval(st, unparen(c.Rhs[0]).(*ast.UnaryExpr).X)
		}
		preps = append(preps, p)
	}
	var outs []*State
	for i, p := range preps {
		t := st.clone()
		t.assume(fmt.Sprintf("(= %s %d)", choice, i))
		t.ghost["selcase"] = fmt.Sprint(i)
		cc := p.cc
		switch c := cc.Comm.(type) {
		case nil:
			// default is taken only when no case is ready; a receive from a closed channel is always ready
			for _, q := range preps {
				switch q.cc.Comm.(type) {
				case *ast.ExprStmt, *ast.AssignStmt:
					t.assume(fmt.Sprintf("(=> (not (= %s 0)) (not (select %s %s)))", q.ch.T, t.heap("CC", "(Array Int Bool)"), q.ch.T))
				}
			}
		case *ast.SendStmt:
			// a nil channel is never ready
			t.assume(fmt.Sprintf("(not (= %s 0))", p.ch.T))
			v := p.v
			if el := chanElem(p.ch.GT); el != nil {
				v = fx.convertTo(t, v, el)
			}
			fx.chanSend(t, p.ch, v, c)
		case *ast.ExprStmt:
			t.assume(fmt.Sprintf("(not (= %s 0))", p.ch.T))
			fx.chanRecv(t, p.ch, c)
		case *ast.AssignStmt:
			t.assume(fmt.Sprintf("(not (= %s 0))", p.ch.T))
			v, ok := fx.chanRecv(t, p.ch, c)
			vals := []Val{v, ok}
			for k, l := range c.Lhs {
				id, isId := l.(*ast.Ident)
				if isId && id.Name == "_" {
					continue
				}
				if c.Tok == token.DEFINE && isId {
					if obj := fx.info.Defs[id]; obj != nil {
						fx.declVar(t, obj, vals[k])
						continue
					}
				}
				loc := fx.lvalue(t, l)
				fx.writeLoc(t, loc, fx.convertTo(t, vals[k], loc.locType()))
			}
		}
		// while a clause body runs, the channels this select receives from are not being read: a plain send to one
		// of them from here blocks for ever once its buffer is full (the goroutine is that channel's reader)
		saved := fx.selRecv
		for _, q := range preps {
			switch c := q.cc.Comm.(type) {
			case *ast.ExprStmt:
				fx.selRecv = append(fx.selRecv, fx.exprText(unparen(c.X).(*ast.UnaryExpr).X))
			case *ast.AssignStmt:
				fx.selRecv = append(fx.selRecv, fx.exprText(unparen(c.Rhs[0]).(*ast.UnaryExpr).X))
			}
		}
		fx.execBlock(t, cc.Body)
		fx.selRecv = saved
		outs = append(outs, t)
	}
	fx.jumps = fx.jumps[:len(fx.jumps)-1]
	outs = append(outs, jc.breaks...)
	*st = *mergeStates(fx.c, outs)
}

func unparen(e ast.Expr) ast.Expr {
	for {
		p, ok := e.(*ast.ParenExpr)
		if !ok {
			return e
		}
		e = p.X
	}
}

// ---------------------------------------------------------------------------
// go / defer

func (fx *Fx) execGo(st *State, s *ast.GoStmt) {
	code, a0, a1 := fx.spawnTarget(st, s.Call)
	st.logEvent(evTerm("Spawn", code, a0, a1, ""))
	fx.spawnedSenderCheck(st, s)
}

// spawnedSenderCheck: a goroutine that sends traces on a tracer must be a registered sender of one - the tracer
// terminates once its registered senders are released, and a trace sent to it afterwards blocks its sender for ever.
// Structural: if the body of the function started here (nested literals excluded) calls ITracer.Send, it defers the
// Done of a sender handle at its top level.
func (fx *Fx) spawnedSenderCheck(st *State, s *ast.GoStmt) {
	if fx.c.dry {
		return
	}
	var fi *FuncInfo
	switch f := unparen(s.Call.Fun).(type) {
	case *ast.FuncLit:
		fi = fx.w.ByLit[f]
	default:
		if fn := fx.calleeFunc(s.Call); fn != nil {
			fi = fx.w.Funcs[funcKeyOf(fn)]
		}
	}
	if fi == nil || fi.Body == nil || fi.Pkg == nil || fi.Pkg.TypesInfo == nil {
		return
	}
	info := fi.Pkg.TypesInfo
	named := func(e ast.Expr, want string) bool {
		t := info.TypeOf(e)
		if t == nil {
			return false
		}
		if n, ok := t.(*types.Named); ok && n.Obj() != nil && n.Obj().Name() == want && n.Obj().Pkg() != nil && strings.HasSuffix(n.Obj().Pkg().Path(), "pkg/tracing") {
			return true
		}
		return false
	}
	sends := false
	ast.Inspect(fi.Body, func(n ast.Node) bool {
		switch x := n.(type) {
		case *ast.FuncLit:
			return false
		case *ast.CallExpr:
			if se, ok := unparen(x.Fun).(*ast.SelectorExpr); ok && se.Sel.Name == "Send" && named(se.X, "ITracer") {
				sends = true
			}
		}
		return true
	})
	if !sends {
		return
	}
	has := "false"
	for _, stmt := range fi.Body.List {
		if d, ok := stmt.(*ast.DeferStmt); ok {
			if se, ok := unparen(d.Call.Fun).(*ast.SelectorExpr); ok && se.Sel.Name == "Done" && named(se.X, "ISenderHandle") {
				has = "true"
			}
		}
	}
	fx.c.oblige(st, "blocking", "spawned-sender("+shortKey(fi.Key)+") @C07", has, "a goroutine that sends traces is a registered sender of the tracer: "+shortKey(fi.Key)+" defers the Done of a sender handle", fx.w.pos(s.Pos()))
}

// spawnTarget evaluates the operands of a go/defer call and returns the code id term.
func (fx *Fx) spawnTarget(st *State, call *ast.CallExpr) (string, string, string) {
	nilI := "(mkIface 0 0)"
	var args []Val
	for _, a := range call.Args {
		args = append(args, fx.eval(st, a))
	}
	a0, a1 := nilI, nilI
	if len(args) > 0 {
		a0 = fx.c.box(args[0])
	}
	if len(args) > 1 {
		a1 = fx.c.box(args[1])
	}
	switch f := unparen(call.Fun).(type) {
	case *ast.FuncLit:
		if len(args) == 0 && fx.recv != nil {
			// the goroutine of a method's literal works on the method's receiver
			if t, ok := st.vars[fx.recv]; ok && !fx.c.boxedVars[fx.recv] {
				a0 = fx.c.box(Val{T: t, S: fx.c.sortOf(fx.recv.Type()), GT: fx.recv.Type()})
			}
		}
		fx.establishClosureInv(st, f)
		return fmt.Sprint(fx.c.codeId(fx.w.ByLit[f].Key)), a0, a1
	default:
		if fn := fx.calleeFunc(call); fn != nil {
			// receiver (if any) becomes a0 when there are no arguments
			var recvVal *Val
			if sel, ok := unparen(call.Fun).(*ast.SelectorExpr); ok {
				if selection, isMethod := fx.info.Selections[sel]; isMethod {
					var rv Val
					if sig, ok := fn.Type().(*types.Signature); ok && sig.Recv() != nil && selection.Kind() == types.MethodVal {
						rv, _ = fx.evalReceiver(st, sel, selection, sig) // takes the address of an addressable receiver
					} else {
						rv = fx.eval(st, sel.X)
					}
					a1 = a0
					a0 = fx.c.box(rv)
					recvVal = &rv
				}
			}
			fx.spawnPre(st, fn, recvVal, args, call)
			return fmt.Sprint(fx.c.codeId(funcKeyOf(fn))), a0, a1
		}
		v := fx.eval(st, call.Fun)
		return "(fn_code " + v.T + ")", a0, a1
	}
}

// establishClosureInv: the closure invariant of a literal holds where the closure is created (or spawned).
func (fx *Fx) establishClosureInv(st *State, lit *ast.FuncLit) {
	fi := fx.w.ByLit[lit]
	if fi == nil || fi.Spec == nil || fx.c.dry {
		return
	}
	for k, ci := range fi.Spec.ClosureInv {
		env := fx.specEnv(st, st, lit.Body.Lbrace)
		fx.c.oblige(st, "closure-inv", clauseAnchor("established("+fi.Name+")", ci, k), fx.specBool(env, ci.Expr), ci.Text, fx.w.pos(lit.Pos()))
	}
}

func (c *Ctx) codeId(key string) int {
	c.declareFun("fn_code", []string{"Int"}, "Int")
	return c.typeTagKey("code:" + key)
}

func (c *Ctx) typeTagKey(k string) int {
	if id, ok := c.tags[k]; ok {
		return id
	}
	id := len(c.tags) + 1
	c.tags[k] = id
	return id
}

func (fx *Fx) execDefer(st *State, s *ast.DeferStmt) {
	d := deferred{call: s.Call, id: int(s.Pos())}
	if lit, ok := unparen(s.Call.Fun).(*ast.FuncLit); ok {
		d.lit = lit
		for _, a := range s.Call.Args {
			d.args = append(d.args, fx.eval(st, a))
		}
	} else {
		// receiver and arguments are evaluated now
		if sel, ok := unparen(s.Call.Fun).(*ast.SelectorExpr); ok {
			if _, isSel := fx.info.Selections[sel]; isSel {
				// keep the expression; receivers used in defers (mutexes, wait groups, sender handles)
				// are not reassigned in the code under contract; evaluation at exit is equivalent.
			}
		}
		for _, a := range s.Call.Args {
			d.args = append(d.args, fx.eval(st, a))
		}
	}
	st.defers = append(st.defers, d)
}

func (fx *Fx) runDefers(st *State, rc *retCtx) {
	ds := st.defers
	st.defers = nil
	for i := len(ds) - 1; i >= 0; i-- {
		if st.dead {
			return
		}
		d := ds[i]
		if d.lit != nil {
			fx.inlineLit(st, d.lit, d.args)
			continue
		}
		fx.callExpr(st, d.call, d.args)
	}
}

// inlineLit executes a function literal's body in place (defer func(){}(), once.Do(func(){}), f := func(){}; f()).
func (fx *Fx) inlineLit(st *State, lit *ast.FuncLit, args []Val) []Val {
	if fx.inline > 8 {
		fx.unsup(lit, "inlining depth")
	}
	fx.inline++
	defer func() { fx.inline-- }()
	sig := fx.info.Types[lit].Type.(*types.Signature)
	k := 0
	for _, f := range lit.Type.Params.List {
		for _, n := range f.Names {
			if obj := fx.info.Defs[n]; obj != nil && k < len(args) {
				fx.declVar(st, obj, args[k])
			}
			k++
		}
	}
	rc := &retCtx{}
	if lit.Type.Results != nil {
		i := 0
		for _, f := range lit.Type.Results.List {
			if len(f.Names) == 0 {
				v := types.NewVar(lit.Pos(), fx.pkg.Types, fmt.Sprintf("$r%d", i), sig.Results().At(i).Type())
				rc.results = append(rc.results, v)
				st.vars[v] = fx.c.zero(v.Type())
				i++
				continue
			}
			for _, n := range f.Names {
				obj := fx.info.Defs[n]
				rc.results = append(rc.results, obj)
				st.vars[obj] = fx.c.zero(obj.Type())
				i++
			}
		}
	}
	saveJumps := fx.jumps
	fx.jumps = nil
	saveDefers := st.defers
	st.defers = nil
	fx.ret = append(fx.ret, rc)
	fx.execBlock(st, lit.Body.List)
	if !st.dead {
		fx.doReturn(st)
	}
	fx.ret = fx.ret[:len(fx.ret)-1]
	fx.jumps = saveJumps
	m := mergeStates(fx.c, rc.returns)
	*st = *m
	if st.dead {
		return nil
	}
	st.defers = saveDefers
	var out []Val
	for _, r := range rc.results {
		out = append(out, Val{T: st.vars[r], S: fx.c.sortOf(r.Type()), GT: r.Type()})
	}
	return out
}

// ---------------------------------------------------------------------------
// constants

func (fx *Fx) constVal(tv types.TypeAndValue) (Val, bool) {
	if tv.Value == nil {
		return Val{}, false
	}
	t := tv.Type
	switch tv.Value.Kind() {
	case constant.Bool:
		if constant.BoolVal(tv.Value) {
			return Val{T: "true", S: "Bool", GT: t}, true
		}
		return Val{T: "false", S: "Bool", GT: t}, true
	case constant.Int:
		s := tv.Value.ExactString()
		if fx.c.sortOf(t) == "Real" {
			return Val{T: smtReal(s), S: "Real", GT: t}, true
		}
		return Val{T: smtInt(s), S: "Int", GT: t}, true
	case constant.Float:
		if fx.c.sortOf(t) == "Int" {
			if i, ok := constant.Int64Val(constant.ToInt(tv.Value)); ok {
				return Val{T: smtInt(fmt.Sprint(i)), S: "Int", GT: t}, true
			}
		}
		n, d := constant.Num(tv.Value), constant.Denom(tv.Value)
		return Val{T: fmt.Sprintf("(/ %s %s)", smtReal(n.ExactString()), smtReal(d.ExactString())), S: "Real", GT: t}, true
	case constant.String:
		return Val{T: fx.c.strLit(constant.StringVal(tv.Value)), S: "Str", GT: t}, true
	}
	return Val{}, false
}

func smtInt(s string) string {
	if strings.HasPrefix(s, "-") {
		return "(- " + s[1:] + ")"
	}
	return s
}

func smtReal(s string) string {
	neg := strings.HasPrefix(s, "-")
	if neg {
		s = s[1:]
	}
	if !strings.Contains(s, ".") {
		s += ".0"
	}
	if neg {
		return "(- " + s + ")"
	}
	return s
}

// assumeRecvInv: message invariants declared in the contract (recvinv T: expr) are assumed for values of that type
// taken out of a received interface value; they are cross-goroutine contracts, listed as assumptions, not proved here.
func (fx *Fx) assumeRecvInv(st *State, v Val, t types.Type, pos token.Pos) {
	if fx.spec == nil {
		return
	}
	name := ""
	if n, ok := types.Unalias(t).(*types.Named); ok {
		name = n.Obj().Name()
	}
	for _, ri := range fx.spec.RecvInv {
		if ri.Name != name {
			continue
		}
		env := fx.specEnv(st, fx.entry, pos)
		env.bound["msg"] = v
		st.assume(fx.specBool(env, ri.Expr))
		fx.c.warn("assumed message invariant of %s: %s", name, ri.Text)
	}
}

// assumeRecvInvIf: as assumeRecvInv, under a guard (the receive delivered a sent value, not the zero value of a closed
// channel).
func (fx *Fx) assumeRecvInvIf(st *State, v Val, t types.Type, pos token.Pos, guard string) {
	if fx.spec == nil {
		return
	}
	name := ""
	if n, ok := types.Unalias(t).(*types.Named); ok {
		name = n.Obj().Name()
	}
	for _, ri := range fx.spec.RecvInv {
		if ri.Name != name {
			continue
		}
		env := fx.specEnv(st, fx.entry, pos)
		env.bound["msg"] = v
		st.assume(fmt.Sprintf("(=> %s %s)", guard, fx.specBool(env, ri.Expr)))
		fx.c.warn("assumed message invariant of %s: %s", name, ri.Text)
	}
}

// decide: the next decision of the path being explored (n alternatives); beyond the prefix the first alternative.
func (fx *Fx) decide(n int) int {
	pos := len(fx.taken)
	d := 0
	if pos < len(fx.prefix) {
		d = fx.prefix[pos]
	}
	if d >= n {
		d = n - 1
	}
	fx.taken = append(fx.taken, d)
	fx.arity = append(fx.arity, n)
	return d
}
