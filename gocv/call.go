package main

import (
	"fmt"
	"go/ast"
	"go/token"
	"go/types"
	"sort"
	"strings"
)

func (fx *Fx) calleeFunc(call *ast.CallExpr) *types.Func {
	return calleeOf(fx.info, call)
}

// callExpr evaluates a call; preArgs (if non-nil) are already evaluated arguments (deferred calls).
func (fx *Fx) callExpr(st *State, call *ast.CallExpr, preArgs []Val) []Val {
	_ = fx.c
	// conversion
	if tv, ok := fx.info.Types[call.Fun]; ok && tv.IsType() {
		v := fx.eval(st, call.Args[0])
		return []Val{fx.conversion(st, v, tv.Type, call)}
	}
	// builtin
	if id, ok := unparen(call.Fun).(*ast.Ident); ok {
		if b, ok := fx.info.ObjectOf(id).(*types.Builtin); ok {
			return fx.builtin(st, b.Name(), call)
		}
	}
	// immediately invoked literal
	if lit, ok := unparen(call.Fun).(*ast.FuncLit); ok {
		args := preArgs
		if args == nil {
			for _, a := range call.Args {
				args = append(args, fx.eval(st, a))
			}
		}
		return fx.inlineLit(st, lit, args)
	}
	fn := fx.calleeFunc(call)
	if fn == nil {
		return fx.callFuncValue(st, call, preArgs)
	}
	sig := fn.Type().(*types.Signature)
	// receiver
	var recv *Val
	var recvLoc *Loc
	if sig.Recv() != nil {
		sel := unparen(call.Fun).(*ast.SelectorExpr)
		selection := fx.info.Selections[sel]
		if selection != nil && selection.Kind() == types.MethodVal {
			rv, loc := fx.evalReceiver(st, sel, selection, sig)
			recv, recvLoc = &rv, loc
		} else if selection != nil && selection.Kind() == types.MethodExpr {
			fx.unsup(call, "method expression call")
		}
	}
	// hard-wired models need the unevaluated argument expressions for some cases
	if res, done := fx.hardwired(st, fn, call, recv, recvLoc, preArgs); done {
		return res
	}
	args := preArgs
	if args == nil {
		args = fx.evalArgs(st, call, sig)
	}
	return fx.applyCall(st, fn, recv, args, call)
}

func (fx *Fx) evalArgs(st *State, call *ast.CallExpr, sig *types.Signature) []Val {
	var args []Val
	tupleArg := false
	if len(call.Args) == 1 {
		_, tupleArg = fx.info.TypeOf(call.Args[0]).(*types.Tuple)
	}
	if tupleArg {
		vs := fx.evalMulti(st, call.Args[0])
		for i, v := range vs {
			args = append(args, fx.convertTo(st, v, sig.Params().At(i).Type()))
		}
		return args
	}
	np := sig.Params().Len()
	for i, a := range call.Args {
		v := fx.eval(st, a)
		var pt types.Type
		if sig.Variadic() && i >= np-1 {
			if call.Ellipsis.IsValid() {
				pt = sig.Params().At(np - 1).Type()
			} else {
				pt = sig.Params().At(np - 1).Type().(*types.Slice).Elem()
			}
		} else if i < np {
			pt = sig.Params().At(i).Type()
		}
		// a pointer into a field declared guarded_by is handed to the callee: the callee's accesses through it happen
		// during the call, so the lock must be held (at least for reading) at the call
		if il, ok := fx.c.interior[v.T]; ok && il.kind == locHeap && fx.w.guardOf(il.key) != "" && fx.w.atomicClass(il.key) == "" {
			fx.guardCheck(st, il, false)
		}
		args = append(args, fx.convertTo(st, v, pt))
	}
	if sig.Variadic() && !call.Ellipsis.IsValid() {
		// pack the variadic tail into a fresh slice
		fixed := args[:min(np-1, len(args))]
		tail := args[min(np-1, len(args)):]
		el := sig.Params().At(np - 1).Type().(*types.Slice).Elem()
		sl := fx.freshSliceOf(st, el, tail)
		args = append(append([]Val(nil), fixed...), sl)
	}
	return args
}

func (fx *Fx) freshSliceOf(st *State, el types.Type, elems []Val) Val {
	c := fx.c
	if len(elems) == 0 {
		return Val{T: "(mkSlice 0 0 0 0)", S: "Slice", GT: types.NewSlice(el)}
	}
	r := st.allocRef()
	es := c.sortOf(el)
	key := "E:" + typeKey(el)
	hs := "(Array Int (Array Int " + es + "))"
	h := st.heap(key, hs)
	arr := fmt.Sprintf("((as const (Array Int %s)) %s)", es, c.zero(el))
	for i, v := range elems {
		arr = fmt.Sprintf("(store %s %d %s)", arr, i, v.T)
	}
	st.setHeap(key, hs, fmt.Sprintf("(store %s %s %s)", h, r, arr))
	return Val{T: fmt.Sprintf("(mkSlice %s 0 %d %d)", r, len(elems), len(elems)), S: "Slice", GT: types.NewSlice(el)}
}

// evalReceiver evaluates the receiver of a method call, following embedded fields.
func (fx *Fx) evalReceiver(st *State, sel *ast.SelectorExpr, selection *types.Selection, sig *types.Signature) (Val, *Loc) {
	idx := selection.Index()
	xt := fx.info.TypeOf(sel.X)
	recvT := sig.Recv().Type()
	_, wantPtr := types.Unalias(recvT).(*types.Pointer)
	_, isIfaceRecv := types.Unalias(recvT).Underlying().(*types.Interface)
	// implicit field path (embedded)
	path := idx[:len(idx)-1]
	if len(path) == 0 {
		_, xIsPtr := types.Unalias(xt).Underlying().(*types.Pointer)
		if wantPtr && !xIsPtr && !isIfaceRecv {
			// &x implicitly
			loc := fx.lvalueOrTemp(st, sel.X)
			return fx.addrOfLoc(st, loc, recvT), loc
		}
		v := fx.eval(st, sel.X)
		if !wantPtr && xIsPtr && !isIfaceRecv {
			// (*x).M
			pt := types.Unalias(xt).Underlying().(*types.Pointer)
			l := fx.derefLoc(st, v, pt.Elem(), sel)
			return fx.readLoc(st, l), l
		}
		return v, nil
	}
	// through embedded fields
	var loc *Loc
	var bval *Val
	cur := xt
	if _, _, isPtr := structOf(xt); isPtr {
		v := fx.eval(st, sel.X)
		bval = &v
	} else {
		loc = fx.lvalueOrTemp(st, sel.X)
	}
	for i, fi := range path {
		if i == 0 {
			loc = fx.fieldLoc(st, loc, bval, cur, fi, sel)
		} else if _, _, isPtr := structOf(cur); isPtr {
			v := fx.readLoc(st, loc)
			loc = fx.fieldLoc(st, nil, &v, cur, fi, sel)
		} else {
			loc = fx.fieldLoc(st, loc, nil, cur, fi, sel)
		}
		cur = loc.locType()
	}
	_, curIsPtr := types.Unalias(cur).Underlying().(*types.Pointer)
	if wantPtr && !curIsPtr && !isIfaceRecv {
		return fx.addrOfLoc(st, loc, recvT), loc
	}
	v := fx.readLoc(st, loc)
	if !wantPtr && curIsPtr && !isIfaceRecv {
		pt := types.Unalias(cur).Underlying().(*types.Pointer)
		l := fx.derefLoc(st, v, pt.Elem(), sel)
		return fx.readLoc(st, l), l
	}
	return v, loc
}

func (fx *Fx) derefLoc(st *State, p Val, elem types.Type, n ast.Node) *Loc {
	fx.nilCheck(st, p.T, n, "nil-deref")
	if s, named, _ := structOf(elem); s != nil && !opaqueNamed(named) {
		return &Loc{kind: locStructAt, ref: p.T, T: elem}
	}
	return &Loc{kind: locHeap, key: "P:" + typeKey(elem), srt: fx.c.sortOf(elem), ref: p.T, T: elem}
}

func (fx *Fx) addrOfLoc(st *State, loc *Loc, t types.Type) Val {
	if loc.kind == locStructAt {
		return Val{T: loc.ref, S: "Int", GT: t}
	}
	id := fx.c.define("ip", "Int", fx.locIdentity(st, loc))
	fx.c.interior[id] = loc
	return Val{T: id, S: "Int", GT: t}
}

func (fx *Fx) conversion(st *State, v Val, t types.Type, n ast.Node) Val {
	c := fx.c
	ts := c.sortOf(t)
	if v.S == ts {
		if ts == "Int" && v.GT != nil {
			// integer to integer: value preserved when in range; out-of-range conversions wrap in Go.
			// Treated as mathematical identity (listed assumption), except int -> unsigned of a possibly negative value.
		}
		return Val{T: v.T, S: ts, GT: t}
	}
	switch {
	case v.S == "Int" && ts == "Real", v.S == "Real" && ts == "Int":
		return fx.convertTo(st, v, t)
	case ts == "Iface":
		return fx.convertTo(st, v, t)
	case v.S == "Str" && ts == "Slice":
		// []byte(s): fresh slice of the string's length
		r := st.allocRef()
		n := fx.strlen(st, v.T)
		return Val{T: fmt.Sprintf("(mkSlice %s 0 %s %s)", r, n, n), S: "Slice", GT: t}
	case v.S == "Slice" && ts == "Str":
		c.declareFun("str_of_bytes", []string{"Int", "Int", "Int"}, "Str")
		return Val{T: fmt.Sprintf("(str_of_bytes (s_base %s) (s_off %s) (s_len %s))", v.T, v.T, v.T), S: "Str", GT: t}
	case v.S == "Int" && ts == "Str":
		c.declareFun("str_of_rune", []string{"Int"}, "Str")
		return Val{T: fmt.Sprintf("(str_of_rune %s)", v.T), S: "Str", GT: t}
	}
	if s1, _, p1 := structOf(v.GT); s1 != nil && !p1 {
		if s2, _, p2 := structOf(t); s2 != nil && !p2 && s1.NumFields() == s2.NumFields() {
			if s2.NumFields() == 0 {
				return Val{T: "mk_" + ts, S: ts, GT: t}
			}
			var fs []string
			for i := 0; i < s1.NumFields(); i++ {
				fs = append(fs, fmt.Sprintf("(%s__%s %s)", v.S, s1.Field(i).Name(), v.T))
			}
			return Val{T: "(mk_" + ts + " " + strings.Join(fs, " ") + ")", S: ts, GT: t}
		}
	}
	fx.unsup(n, "conversion %s -> %s", v.S, ts)
	return Val{}
}

// ---------------------------------------------------------------------------
// builtins

func (fx *Fx) builtin(st *State, name string, call *ast.CallExpr) []Val {
	c := fx.c
	intT := types.Typ[types.Int]
	switch name {
	case "len", "cap":
		v := fx.eval(st, call.Args[0])
		switch v.S {
		case "Slice":
			sel := "s_len"
			if name == "cap" {
				sel = "s_cap"
			}
			return []Val{{T: fmt.Sprintf("(%s %s)", sel, v.T), S: "Int", GT: intT}}
		case "Str":
			return []Val{{T: fx.strlen(st, v.T), S: "Int", GT: intT}}
		}
		switch u := types.Unalias(v.GT).Underlying().(type) {
		case *types.Map:
			card := st.heap("MC:"+typeKey(v.GT), "(Array Int Int)")
			t := c.define("mlen", "Int", fmt.Sprintf("(select %s %s)", card, v.T))
			st.assume(fmt.Sprintf("(>= %s 0)", t))
			st.assume(fmt.Sprintf("(=> (= %s 0) (= %s 0))", v.T, t))
			return []Val{{T: t, S: "Int", GT: intT}}
		case *types.Chan:
			t := c.freshConst("chlen", "Int")
			st.assume(fmt.Sprintf("(>= %s 0)", t))
			return []Val{{T: t, S: "Int", GT: intT}}
		case *types.Array:
			return []Val{{T: fmt.Sprint(u.Len()), S: "Int", GT: intT}}
		}
		fx.unsup(call, "%s of %s", name, v.GT)
	case "make":
		t := fx.info.TypeOf(call)
		switch u := types.Unalias(t).Underlying().(type) {
		case *types.Slice:
			n := fx.eval(st, call.Args[1])
			cp := n
			if len(call.Args) > 2 {
				cp = fx.eval(st, call.Args[2])
			}
			phi := fmt.Sprintf("(and (<= 0 %s) (<= %s %s))", n.T, n.T, cp.T)
			c.oblige(st, "panic", "make("+fx.exprText(call)+")", phi, "make: len in range: "+fx.exprText(call), fx.w.pos(call.Pos()))
			st.assume(phi)
			r := st.allocRef()
			es := c.sortOf(u.Elem())
			key := "E:" + typeKey(u.Elem())
			hs := "(Array Int (Array Int " + es + "))"
			h := st.heap(key, hs)
			st.setHeap(key, hs, fmt.Sprintf("(store %s %s ((as const (Array Int %s)) %s))", h, r, es, c.zero(u.Elem())))
			return []Val{{T: fmt.Sprintf("(mkSlice %s 0 %s %s)", r, n.T, cp.T), S: "Slice", GT: t}}
		case *types.Map:
			r := st.allocRef()
			ks, vs := c.sortOf(u.Key()), c.sortOf(u.Elem())
			key := typeKey(t)
			hds, hvs := "(Array Int (Array "+ks+" Bool))", "(Array Int (Array "+ks+" "+vs+"))"
			st.setHeap("MD:"+key, hds, fmt.Sprintf("(store %s %s ((as const (Array %s Bool)) false))", st.heap("MD:"+key, hds), r, ks))
			st.setHeap("MV:"+key, hvs, fmt.Sprintf("(store %s %s ((as const (Array %s %s)) %s))", st.heap("MV:"+key, hvs), r, ks, vs, c.zero(u.Elem())))
			st.setHeap("MC:"+key, "(Array Int Int)", fmt.Sprintf("(store %s %s 0)", st.heap("MC:"+key, "(Array Int Int)"), r))
			return []Val{{T: r, S: "Int", GT: t}}
		case *types.Chan:
			cp := Val{T: "0"}
			if len(call.Args) > 1 {
				cp = fx.eval(st, call.Args[1])
				phi := fmt.Sprintf("(<= 0 %s)", cp.T)
				c.oblige(st, "panic", "make("+fx.exprText(call)+")", phi, "make: chan size non-negative", fx.w.pos(call.Pos()))
				st.assume(phi)
			}
			r := st.allocRef()
			st.assume(c.refTypeFact(r, t))
			st.setHeap("CC", "(Array Int Bool)", fmt.Sprintf("(store %s %s false)", st.heap("CC", "(Array Int Bool)"), r))
			st.setHeap("CP", "(Array Int Int)", fmt.Sprintf("(store %s %s %s)", st.heap("CP", "(Array Int Int)"), r, cp.T))
			return []Val{{T: r, S: "Int", GT: t}}
		}
		fx.unsup(call, "make of %s", t)
	case "new":
		t := fx.info.TypeOf(call).(*types.Pointer).Elem()
		r := st.allocRef()
		if s, named, _ := structOf(t); s != nil && !opaqueNamed(named) {
			fx.writeStructAt(st, r, t, Val{T: c.zero(t), S: c.sortOf(t), GT: t})
		} else {
			hs := "(Array Int " + c.sortOf(t) + ")"
			key := "P:" + typeKey(t)
			st.setHeap(key, hs, fmt.Sprintf("(store %s %s %s)", st.heap(key, hs), r, c.zero(t)))
		}
		return []Val{{T: r, S: "Int", GT: fx.info.TypeOf(call)}}
	case "append":
		return []Val{fx.builtinAppend(st, call)}
	case "delete":
		if gk, gr := fx.containerGuard(st, call.Args[0]); gk != "" {
			fx.guardCheck(st, &Loc{kind: locHeap, key: gk, ref: gr}, true)
		}
		m := fx.eval(st, call.Args[0])
		mt := types.Unalias(m.GT).Underlying().(*types.Map)
		k := fx.convertTo(st, fx.eval(st, call.Args[1]), mt.Key())
		ks := c.sortOf(mt.Key())
		key := typeKey(m.GT)
		hds := "(Array Int (Array " + ks + " Bool))"
		hd := st.heap("MD:"+key, hds)
		// delete on a nil map is a no-op
		st.setHeap("MD:"+key, hds, fmt.Sprintf("(ite (= %s 0) %s (store %s %s (store (select %s %s) %s false)))", m.T, hd, hd, m.T, hd, m.T, k.T))
		st.havocHeap("MC:" + key)
		return nil
	case "close":
		ch := fx.eval(st, call.Args[0])
		closed := st.heap("CC", "(Array Int Bool)")
		phi := fmt.Sprintf("(and (not (= %s 0)) (not (select %s %s)))", ch.T, closed, ch.T)
		if gk, gr := fx.containerGuardKey(st, call.Args[0]); gk != "" && fx.w.closedOnceBy(gk) != "" {
			// a channel field declared closed_once_by f: every close of it sits in the callback of that object's f.Do,
			// so that sync.Once makes it the only close (the class is checked here, at every close of the field)
			name := "addr_" + sanitize(fx.w.closedOnceBy(gk))
			c.declareFun(name, []string{"Int"}, "Int")
			want := fmt.Sprintf("(%s %s)", name, gr)
			in := []string{"false"}
			for _, m := range fx.onceStack {
				in = append(in, fmt.Sprintf("(= %s %s)", m, want))
			}
			c.oblige(st, "chan-close-once", "close("+fx.exprText(call.Args[0])+")", "(and (not (= "+ch.T+" 0)) (or "+strings.Join(in, " ")+"))",
				"close of "+fx.exprText(call.Args[0])+" happens inside the callback of its sync.Once ("+strings.TrimPrefix(fx.w.closedOnceBy(gk), "F:")+")", fx.w.pos(call.Pos()))
		} else {
			c.oblige(st, "chan-close-once", "close("+fx.exprText(call.Args[0])+")", phi, "close of open, non-nil channel: "+fx.exprText(call), fx.w.pos(call.Pos()))
		}
		st.assume(phi)
		st.setHeap("CC", "(Array Int Bool)", fmt.Sprintf("(store %s %s true)", closed, ch.T))
		st.logEvent(evTerm("Close", ch.T, "", "", ""))
		return nil
	case "panic":
		for _, a := range call.Args {
			fx.eval(st, a)
		}
		c.oblige(st, "panic", "explicit-panic("+fx.exprText(call)+")", "false", "panic call unreachable: "+fx.exprText(call), fx.w.pos(call.Pos()))
		fx.kill(st)
		return nil
	case "copy":
		dst := fx.eval(st, call.Args[0])
		src := fx.eval(st, call.Args[1])
		if sl, ok := types.Unalias(dst.GT).Underlying().(*types.Slice); ok {
			st.havocHeap("E:" + typeKey(sl.Elem()))
		}
		n := c.freshConst("copied", "Int")
		if src.S == "Slice" {
			st.assume(fmt.Sprintf("(and (<= 0 %s) (<= %s (s_len %s)) (<= %s (s_len %s)))", n, n, dst.T, n, src.T))
		} else {
			st.assume(fmt.Sprintf("(and (<= 0 %s) (<= %s (s_len %s)))", n, n, dst.T))
		}
		return []Val{{T: n, S: "Int", GT: intT}}
	case "min", "max":
		v := fx.eval(st, call.Args[0])
		for _, a := range call.Args[1:] {
			w := fx.eval(st, a)
			op := "<="
			if name == "max" {
				op = ">="
			}
			v = Val{T: fmt.Sprintf("(ite (%s %s %s) %s %s)", op, v.T, w.T, v.T, w.T), S: v.S, GT: v.GT}
		}
		return []Val{v}
	case "print", "println":
		for _, a := range call.Args {
			fx.eval(st, a)
		}
		return nil
	case "recover":
		return []Val{{T: "(mkIface 0 0)", S: "Iface", GT: fx.info.TypeOf(call)}}
	}
	fx.unsup(call, "builtin %s", name)
	return nil
}

func (fx *Fx) builtinAppend(st *State, call *ast.CallExpr) Val {
	c := fx.c
	s := fx.eval(st, call.Args[0])
	t := fx.info.TypeOf(call)
	sl := types.Unalias(t).Underlying().(*types.Slice)
	s = fx.convertTo(st, s, t)
	s.T = c.define("aps", "Slice", s.T)
	fx.wfSlice(st, s.T)
	es := c.sortOf(sl.Elem())
	key := "E:" + typeKey(sl.Elem())
	hs := "(Array Int (Array Int " + es + "))"
	if call.Ellipsis.IsValid() {
		// append(s, t...): result is a fresh slice holding s followed by t
		o := fx.eval(st, call.Args[1])
		if o.S != "Slice" {
			fx.unsup(call, "append of string...")
		}
		o.T = c.define("apo", "Slice", o.T)
		r := st.allocRef()
		h := st.heap(key, hs)
		na := c.freshConst("arr", "(Array Int "+es+")")
		n := c.define("apn", "Int", fmt.Sprintf("(+ (s_len %s) (s_len %s))", s.T, o.T))
		st.assume(fmt.Sprintf("(forall ((k!a Int)) (! (=> (and (<= 0 k!a) (< k!a (s_len %s))) (= (select %s k!a) (select (select %s (s_base %s)) (+ (s_off %s) k!a)))) :pattern ((select %s k!a))))", s.T, na, h, s.T, s.T, na))
		st.assume(fmt.Sprintf("(forall ((k!a Int)) (! (=> (and (<= 0 k!a) (< k!a (s_len %s))) (= (select %s (+ (s_len %s) k!a)) (select (select %s (s_base %s)) (+ (s_off %s) k!a)))) :pattern ((select %s (+ (s_len %s) k!a)))))", o.T, na, s.T, h, o.T, o.T, na, s.T))
		st.setHeap(key, hs, fmt.Sprintf("(store %s %s %s)", h, r, na))
		cp := c.freshConst("cap", "Int")
		st.assume(fmt.Sprintf("(>= %s %s)", cp, n))
		return Val{T: fmt.Sprintf("(mkSlice %s 0 %s %s)", r, n, cp), S: "Slice", GT: t}
	}
	var elems []Val
	for _, a := range call.Args[1:] {
		elems = append(elems, fx.convertTo(st, fx.eval(st, a), sl.Elem()))
	}
	if len(elems) == 0 {
		return s
	}
	// Two cases as in Go: enough capacity (in place, sharing the backing array) or reallocation (fresh array).
	// They are explored as two branches (separate paths with `flag paths`, merged otherwise).
	n := len(elems)
	fits := c.define("fits", "Bool", fmt.Sprintf("(and (not (= (s_base %s) 0)) (<= (+ (s_len %s) %d) (s_cap %s)))", s.T, s.T, n, s.T))
	tmp := types.NewVar(call.Pos(), fx.pkg.Types, "$app", t)
	fx.branch(st, fits, func(b *State) {
		h := b.heap(key, hs)
		inArr := fmt.Sprintf("(select %s (s_base %s))", h, s.T)
		for i, v := range elems {
			inArr = fmt.Sprintf("(store %s (+ (s_off %s) (s_len %s) %d) %s)", inArr, s.T, s.T, i, v.T)
		}
		b.setHeap(key, hs, fmt.Sprintf("(store %s (s_base %s) %s)", h, s.T, inArr))
		b.vars[tmp] = c.define("app", "Slice", fmt.Sprintf("(mkSlice (s_base %s) (s_off %s) (+ (s_len %s) %d) (s_cap %s))", s.T, s.T, s.T, n, s.T))
	}, func(b *State) {
		h := b.heap(key, hs)
		r := b.allocRef()
		na := c.freshConst("arr", "(Array Int "+es+")")
		b.assume(fmt.Sprintf("(forall ((k!a Int)) (! (=> (and (<= 0 k!a) (< k!a (s_len %s))) (= (select %s k!a) (select (select %s (s_base %s)) (+ (s_off %s) k!a)))) :pattern ((select %s k!a))))", s.T, na, h, s.T, s.T, na))
		frArr := na
		for i, v := range elems {
			frArr = fmt.Sprintf("(store %s (+ (s_len %s) %d) %s)", frArr, s.T, i, v.T)
		}
		cp := c.freshConst("cap", "Int")
		b.assume(fmt.Sprintf("(>= %s (+ (s_len %s) %d))", cp, s.T, n))
		b.setHeap(key, hs, fmt.Sprintf("(store %s %s %s)", h, r, frArr))
		b.vars[tmp] = c.define("app", "Slice", fmt.Sprintf("(mkSlice %s 0 (+ (s_len %s) %d) %s)", r, s.T, n, cp))
	})
	res := st.vars[tmp]
	delete(st.vars, tmp)
	return Val{T: res, S: "Slice", GT: t}
}

// ---------------------------------------------------------------------------
// calls through function values

func (fx *Fx) callFuncValue(st *State, call *ast.CallExpr, preArgs []Val) []Val {
	c := fx.c
	// a local variable that holds a literal of this function and is called: run the literal in place
	if id, ok := unparen(call.Fun).(*ast.Ident); ok {
		if lit := fx.singleLitAssigned(id); lit != nil {
			args := preArgs
			if args == nil {
				for _, a := range call.Args {
					args = append(args, fx.eval(st, a))
				}
			}
			return fx.inlineLit(st, lit, args)
		}
	}
	fv := fx.eval(st, call.Fun)
	sig, _ := types.Unalias(fv.GT).Underlying().(*types.Signature)
	args := preArgs
	if args == nil && sig != nil {
		args = fx.evalArgs(st, call, sig)
	}
	nilI := "(mkIface 0 0)"
	a0, a1 := nilI, nilI
	if len(args) > 0 {
		a0 = c.box(args[0])
	}
	if len(args) > 1 {
		a1 = c.box(args[1])
	}
	if fx.checkNil() {
		c.oblige(st, "nil", "nil-func("+fx.exprText(call.Fun)+")", fmt.Sprintf("(not (= %s 0))", fv.T), "call of non-nil function value: "+fx.exprText(call), fx.w.pos(call.Pos()))
	}
	st.assume(fmt.Sprintf("(not (= %s 0))", fv.T))
	c.declareFun("fn_code", []string{"Int"}, "Int")
	st.logEvent(evTerm("FnCall", "(fn_code "+fv.T+")", a0, a1, ""))
	// ghost: number of calls made through each function value (by code id)
	nc := st.heap("NC", "(Array Int Int)")
	st.setHeap("NC", "(Array Int Int)", fmt.Sprintf("(store %s (fn_code %s) (+ (select %s (fn_code %s)) 1))", nc, fv.T, nc, fv.T))
	// effects: those of any literal with the same signature; events: opaque
	ms := newModSet()
	fx.w.callMods(fx.pkg, c, call, ms, nil)
	ms.opaque = false
	ms.fncall = false // calls made inside unknown code are not this activation's calls
	ms.emits = false
	fx.havocMods(st, ms)
	st.havocLogOpaque()
	// contract attached to the func-typed parameter / variable?  (spec: "fnparam <name>")
	var out []Val
	if sig != nil {
		for i := 0; i < sig.Results().Len(); i++ {
			out = append(out, fx.freshOfType(st, "fr", sig.Results().At(i).Type()))
		}
		// ghost: how many of the calls made through each function value returned true (single boolean result)
		if len(out) == 1 && out[0].S == "Bool" {
			nt := st.heap("NCT", "(Array Int Int)")
			st.setHeap("NCT", "(Array Int Int)", fmt.Sprintf("(store %s (fn_code %s) (+ (select %s (fn_code %s)) (ite %s 1 0)))", nt, fv.T, nt, fv.T, out[0].T))
		}
	}
	return out
}

func (fx *Fx) havocMods(st *State, ms *modSet) {
	if ms.all {
		st.havocAllHeaps()
	} else {
		for _, k := range sortedBoolKeys(ms.heaps) {
			if k == "LK" || k == "ONCE" {
				continue // callees leave lock state balanced (their own lock-released@exit obligation)
			}
			st.havocHeap(k)
		}
		for _, k := range sortedBoolKeys(ms.fresh) {
			if ms.heaps[k] {
				continue
			}
			srt, known := st.c.heapSorts()[k]
			if !known {
				continue // never read so far: nothing to preserve
			}
			old := st.heap(k, srt)
			st.havocHeap(k)
			nw := st.heap(k, srt)
			st.assume(fmt.Sprintf("(forall ((r!f Int)) (! (=> (and (< 0 r!f) (<= r!f %s)) (= (select %s r!f) (select %s r!f))) :pattern ((select %s r!f))))", st.alloc, nw, old, nw))
		}
	}
	if ms.emits || ms.all {
		st.havocLog()
	} else if ms.opaque {
		st.havocLogOpaque()
	}
	if ms.fncall || ms.all {
		st.havocHeap("NC")
		st.havocHeap("NCT")
	}
	if ms.allocs || ms.all {
		st.havocAlloc()
	}
}

func (fx *Fx) freshOfType(st *State, prefix string, t types.Type) Val {
	c := fx.c
	s := c.sortOf(t)
	n := c.freshConst(prefix, s)
	if ra := c.rangeAssume(n, t); ra != "" {
		st.assume(ra)
	}
	if rf := c.refTypeFact(n, t); rf != "" {
		st.assume(rf)
	}
	return Val{T: n, S: s, GT: t}
}

// singleLitAssigned: identifier is a local variable assigned exactly once, from a function literal.
func (fx *Fx) singleLitAssigned(id *ast.Ident) *ast.FuncLit {
	obj, ok := fx.info.ObjectOf(id).(*types.Var)
	if !ok || isGlobal(obj) {
		return nil
	}
	var lit *ast.FuncLit
	n := 0
	root := ast.Node(fx.fi.Decl)
	ast.Inspect(root, func(x ast.Node) bool {
		switch s := x.(type) {
		case *ast.AssignStmt:
			for i, l := range s.Lhs {
				if lid, ok := l.(*ast.Ident); ok && fx.info.ObjectOf(lid) == obj {
					n++
					if len(s.Rhs) == len(s.Lhs) {
						if fl, ok := unparen(s.Rhs[i]).(*ast.FuncLit); ok {
							lit = fl
						}
					}
				}
			}
		case *ast.ValueSpec:
			for i, nm := range s.Names {
				if fx.info.ObjectOf(nm) == obj {
					n++
					if i < len(s.Values) {
						if fl, ok := unparen(s.Values[i]).(*ast.FuncLit); ok {
							lit = fl
						}
					}
				}
			}
		case *ast.UnaryExpr:
			if s.Op == token.AND {
				if uid, ok := unparen(s.X).(*ast.Ident); ok && fx.info.ObjectOf(uid) == obj {
					n += 2
				}
			}
		}
		return true
	})
	if n == 1 && lit != nil {
		return lit
	}
	return nil
}

// ---------------------------------------------------------------------------
// contract application

func (fx *Fx) specFor(fn *types.Func) (*FuncSpec, string) {
	key := funcKeyOf(fn)
	if sp, ok := fx.w.Specs[key]; ok {
		return sp, key
	}
	// promoted through embedding / generic origin
	if o := fn.Origin(); o != fn {
		k2 := funcKeyOf(o)
		if sp, ok := fx.w.Specs[k2]; ok {
			return sp, k2
		}
	}
	return nil, key
}

// pureIfaceMethod: a method of an interface without contract all of whose implementations in the loaded
// packages are covered by a pure glob (e.g. the generated getters of package schema).
func (fx *Fx) pureIfaceMethod(fn *types.Func) bool {
	sig := fn.Type().(*types.Signature)
	r := sig.Recv()
	if r == nil {
		return false
	}
	it, ok := types.Unalias(r.Type()).Underlying().(*types.Interface)
	if !ok {
		return false
	}
	n := 0
	for _, fi := range fx.w.Funcs {
		if fi.Obj == nil || fi.Obj.Name() != fn.Name() {
			continue
		}
		rs := fi.Obj.Type().(*types.Signature).Recv()
		if rs == nil || !types.Implements(rs.Type(), it) {
			continue
		}
		if !fx.pureGlob(fi.Key) {
			return false
		}
		n++
	}
	return n > 0
}

func (fx *Fx) pureGlob(key string) bool {
	for _, g := range fx.w.PureGlobs {
		pat := strings.TrimSuffix(g, "*")
		if strings.HasPrefix(key, pat) {
			// only functions that (transitively, syntactically) write no heap and emit no events
			ms := fx.w.modsOfFunc(key, nil, nil)
			if ms.all || ms.emits || len(ms.heaps) > 0 {
				return false
			}
			return true
		}
	}
	return false
}

// spawnPre: `go f(args)` / `defer f(args)` on a function under contract: its preconditions hold where it is started
// (lock-state preconditions excepted: the goroutine's lock state is its own).
func (fx *Fx) spawnPre(st *State, fn *types.Func, recv *Val, args []Val, call *ast.CallExpr) {
	sp, key := fx.specFor(fn)
	if sp == nil || sp.Assumed || fx.c.dry || sp.Flags["spawnpre"] == "" {
		// (opt-in: the preconditions of most goroutine bodies are representation invariants of their node, established
		// by its constructor; they are assumptions of the body's proof unless the contract asks for this check)
		return
	}
	sig := fn.Type().(*types.Signature)
	name := key[strings.Index(key, "|")+1:]
	bound := map[string]Val{}
	if recv != nil && sig.Recv() != nil {
		rv := *recv
		if _, isPtr := types.Unalias(sig.Recv().Type()).(*types.Pointer); isPtr {
			if _, valPtr := types.Unalias(rv.GT).Underlying().(*types.Pointer); !valPtr {
				return // address of an addressable value: not modelled here
			}
		}
		bound["this"] = rv
		if rn := sig.Recv().Name(); rn != "" && rn != "_" {
			bound[rn] = rv
		}
	}
	for i := 0; i < sig.Params().Len() && i < len(args); i++ {
		if pn := sig.Params().At(i).Name(); pn != "" && pn != "_" {
			bound[pn] = args[i]
		}
	}
	fx.w.aliasRecordedNames(key, bound)
	specPos := token.NoPos
	if fi, ok := fx.w.Funcs[key]; ok {
		specPos = fi.Body.Lbrace
	}
	for k, r := range sp.Requires {
		if strings.Contains(r.Text, "held(") || r.Kind == "assumes" {
			continue
		}
		env := &SpecEnv{fx: fx, st: st, old: st, bound: bound, pos: specPos, pkg: fx.w.Pkgs[sp.PkgPath]}
		phi := fx.specBool(env, r.Expr)
		fx.c.oblige(st, "pre", "spawn:"+clauseAnchor(name, r, k), phi, "precondition of "+name+" where its goroutine is started: "+r.Text, fx.w.pos(call.Pos()))
	}
}

func (fx *Fx) applyCall(st *State, fn *types.Func, recv *Val, args []Val, call *ast.CallExpr) []Val {
	c := fx.c
	sig := fn.Type().(*types.Signature)
	sp, key := fx.specFor(fn)
	name := key[strings.Index(key, "|")+1:]
	if sp == nil {
		return fx.defaultCall(st, fn, key, recv, args, call)
	}
	pos := fx.w.pos(call.Pos())
	bound := map[string]Val{}
	if recv != nil {
		bound["this"] = *recv
		if rn := sig.Recv().Name(); rn != "" && rn != "_" {
			bound[rn] = *recv
		}
	}
	for i := 0; i < sig.Params().Len() && i < len(args); i++ {
		if pn := sig.Params().At(i).Name(); pn != "" && pn != "_" {
			bound[pn] = args[i]
		}
		bound[fmt.Sprintf("arg%d", i)] = args[i]
	}
	fx.w.aliasRecordedNames(key, bound)
	specPos := token.NoPos
	if fi, ok := fx.w.Funcs[key]; ok {
		specPos = fi.Body.Lbrace
	}
	calleePkg := fx.w.Pkgs[sp.PkgPath]
	// requires
	for k, r := range sp.Requires {
		if r.Kind == "assumes" {
			continue
		}
		env := &SpecEnv{fx: fx, st: st, old: st, bound: bound, pos: specPos, pkg: calleePkg}
		phi := fx.specBool(env, r.Expr)
		class := "pre"
		if sp.Assumed {
			class = "panic" // a dependency's requires is what keeps it from panicking
		}
		c.oblige(st, class, clauseAnchor(name, r, k), phi, "precondition of "+name+": "+r.Text, pos)
		st.assume(phi)
	}
	if sp.Flags["callbacks"] != "" && fx.spec != nil && fx.spec.Flags["unlockedcallbacks"] != "" {
		// the caller promises to run callbacks (consumers, handlers) holding none of its locks, so that a callback may
		// call back into the object (register, unsubscribe) without deadlocking
		var free []string
		for _, mu := range c.locks {
			free = append(free, fmt.Sprintf("(= (select %s %s) 0)", fx.lkHeap(st), mu))
		}
		c.oblige(st, "blocking", "callbacks-run-unlocked("+name+")", "(and true "+strings.Join(free, " ")+")", "no lock of this activation is held while "+name+" runs callbacks", pos)
	}
	pre := st.clone()
	// frame
	ms := fx.w.modsOfFunc(key, c, nil)
	var lkFrame func()
	if v := sp.Flags["lockeffect"]; v != "" {
		oldLK := st.heap("LK", "(Array Int Int)")
		st.havocHeap("LK") // the callee changes lock state; its ensures say how
		if v != "true" {
			// flag lockeffect x.f y.g: only these locks change state
			exprs := strings.Fields(v)
			lkFrame = func() {
				env := &SpecEnv{fx: fx, st: pre, old: pre, bound: bound, pos: specPos, pkg: calleePkg}
				cur := oldLK
				nw := st.heap("LK", "(Array Int Int)")
				for _, ex := range exprs {
					pe, perr := parseSpecExpr("mu(" + ex + ")")
					if perr != nil {
						sfail("flag lockeffect %s: %v", ex, perr)
					}
					m := fx.specEval(env, pe).T
					cur = fmt.Sprintf("(store %s %s (select %s %s))", cur, m, nw, m)
				}
				st.assume(fmt.Sprintf("(= %s %s)", nw, cur))
			}
		}
	}
	// results
	var out []Val
	pure := sp.Flags["pure"] != ""
	for i := 0; i < sig.Results().Len(); i++ {
		rt := sig.Results().At(i).Type()
		var v Val
		if pure && sp.Flags["heapdep"] == "" {
			v = fx.pureApp(st, key, i, recv, args, rt)
		} else {
			v = fx.freshOfType(st, "res", rt)
		}
		out = append(out, v)
		if rn := sig.Results().At(i).Name(); rn != "" && rn != "_" {
			bound[rn] = v
		}
		bound[fmt.Sprintf("result%d", i)] = v
	}
	if len(out) > 0 {
		bound["result"] = out[0]
	}
	fx.w.aliasRecordedNames(key, bound)
	// object-granular frames: heaps named as x.f change only at the object x
	type objFrame struct{ key, old string }
	var objFrames []objFrame
	for k, objs := range sp.ModObjs {
		if len(objs) == 0 {
			continue
		}
		if srt, known := c.heapSorts()[k]; known {
			objFrames = append(objFrames, objFrame{k, st.heap(k, srt)})
		}
	}
	defer func() {
		// (installed below, after the havoc)
	}()
	applyObjFrames := func() {
		for _, of := range objFrames {
			srt := c.heapSorts()[of.key]
			nw := st.heap(of.key, srt)
			if nw == of.old {
				continue
			}
			var ne []string
			for _, on := range sp.ModObjs[of.key] {
				if v, ok := bound[on]; ok {
					ne = append(ne, fmt.Sprintf("(not (= r!o %s))", v.T))
				}
			}
			st.assume(fmt.Sprintf("(forall ((r!o Int)) (! (=> (and %s true) (= (select %s r!o) (select %s r!o))) :pattern ((select %s r!o))))", strings.Join(ne, " "), nw, of.old, nw))
		}
	}
	if len(sp.EmitsC) > 0 || sp.Flags["emits"] == "none" {
		// explicit event list
		m2 := *ms
		m2.emits = false
		m2.opaque = false
		fx.havocMods(st, &m2)
		for _, ec := range sp.EmitsC {
			env := &SpecEnv{fx: fx, st: st, old: pre, bound: bound, pos: specPos, pkg: calleePkg}
			ev := fx.specEval(env, ec.Expr)
			st.logEvent(ev.T)
		}
	} else if sp.Flags["emits"] == "opaque" || sp.Flags["emits"] == "opaque+calls" {
		m2 := *ms
		m2.emits = false
		m2.opaque = false
		fx.havocMods(st, &m2)
		st.havocLogKinds(sp.Flags["emits"] == "opaque+calls")
	} else {
		fx.havocMods(st, ms)
	}
	applyObjFrames()
	if lkFrame != nil {
		lkFrame()
	}
	if !pure {
		// whatever a callee returns exists when it returns
		for i, v := range out {
			fx.boundRefs(st, v.T, sig.Results().At(i).Type(), 0)
		}
	}
	for _, e := range sp.Ensures {
		env := &SpecEnv{fx: fx, st: st, old: pre, bound: bound, pos: specPos, pkg: calleePkg}
		for _, cj := range splitConj(e.Expr) {
			// ndirect counts the direct calls of the callee's own activation: it says nothing about the caller's counters
			if sexprMentions(cj, "ndirect") || sexprMentions(cj, "ndirectTrue") {
				continue
			}
			// calls a callee makes through function values appear as opaque events in the caller's log: a clause about
			// the callee's FnCall events says nothing about the caller's counters
			if sexprMentions(cj, "FnCall") || sexprMentions(cj, "isFnCall") {
				continue
			}
			st.assume(fx.specBool(env, cj))
		}
	}
	if sp.Flags["countcalls"] != "" {
		// per-activation ghost counter of the direct calls of this callee
		nrt := st.heap("NRT", "(Array Int Int)")
		id := c.codeId(key)
		st.setHeap("NRT", "(Array Int Int)", fmt.Sprintf("(store %s %d (+ (select %s %d) 1))", nrt, 2*id, nrt, 2*id))
	}
	if sp.Flags["countresult"] != "" {
		// per-activation ghost counters of the direct calls of this callee: [2*code] calls, [2*code+1] calls that returned true
		// (the first boolean result: `v, ok := f()` counts ok)
		for _, o := range out {
			if o.S != "Bool" {
				continue
			}
			nrt := st.heap("NRT", "(Array Int Int)")
			id := c.codeId(key)
			st.setHeap("NRT", "(Array Int Int)", fmt.Sprintf("(store (store %s %d (+ (select %s %d) 1)) %d (+ (select %s %d) (ite %s 1 0)))", nrt, 2*id, nrt, 2*id, 2*id+1, nrt, 2*id+1, o.T))
			break
		}
	}
	return out
}

func (fx *Fx) pureApp(st *State, key string, i int, recv *Val, args []Val, rt types.Type) Val {
	c := fx.c
	var sorts, terms []string
	if recv != nil {
		sorts = append(sorts, recv.S)
		terms = append(terms, recv.T)
	}
	for _, a := range args {
		sorts = append(sorts, a.S)
		terms = append(terms, a.T)
	}
	rs := c.sortOf(rt)
	name := fmt.Sprintf("pf_%s_%d", sanitize(key), i)
	if len(sorts) == 0 {
		c.declareConst(name, rs)
		return fx.loadedPure(st, Val{T: name, S: rs, GT: rt})
	}
	c.declareFun(name, sorts, rs)
	return fx.loadedPure(st, Val{T: c.define("pv", rs, "("+name+" "+strings.Join(terms, " ")+")"), S: rs, GT: rt})
}

func (fx *Fx) loadedPure(st *State, v Val) Val {
	if ra := fx.c.rangeAssume(v.T, v.GT); ra != "" {
		st.assume(ra)
	}
	if rf := fx.c.refTypeFact(v.T, v.GT); rf != "" {
		st.assume(rf)
	}
	return v
}

// defaultCall: callee without a contract.
func (fx *Fx) defaultCall(st *State, fn *types.Func, key string, recv *Val, args []Val, call *ast.CallExpr) []Val {
	c := fx.c
	sig := fn.Type().(*types.Signature)
	var out []Val
	if fx.pureGlob(key) || fx.pureIfaceMethod(fn) {
		key = "m|" + fn.Name() + "|" + key
		for i := 0; i < sig.Results().Len(); i++ {
			out = append(out, fx.pureApp(st, key, i, recv, args, sig.Results().At(i).Type()))
		}
		return out
	}
	// interface method without contract: union of the implementations' frames (mods.go)
	ms := newModSet()
	fx.w.callMods(fx.pkg, c, call, ms, nil)
	fx.havocMods(st, ms)
	for i := 0; i < sig.Results().Len(); i++ {
		v := fx.freshOfType(st, "res", sig.Results().At(i).Type())
		fx.boundRefs(st, v.T, sig.Results().At(i).Type(), 0)
		out = append(out, v)
	}
	return out
}

// sortedBoolKeys: map keys in a fixed order, so that the constants of a query are numbered the same way on every run
// (solver behaviour on quantified goals depends on it).
func sortedBoolKeys(m map[string]bool) []string {
	ks := make([]string, 0, len(m))
	for k := range m {
		ks = append(ks, k)
	}
	sort.Strings(ks)
	return ks
}
