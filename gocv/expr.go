package main

import (
	"fmt"
	"go/ast"
	"go/token"
	"go/types"
	"os"
	"strings"
)

var srcCache = map[string][]byte{}

func (w *World) source(file string) []byte {
	if b, ok := srcCache[file]; ok {
		return b
	}
	b, _ := os.ReadFile(file)
	srcCache[file] = b
	return b
}

func (fx *Fx) eval(st *State, e ast.Expr) Val {
	vs := fx.evalMulti(st, e)
	if len(vs) == 0 {
		return Val{T: "0", S: "Int"}
	}
	return vs[0]
}

func (fx *Fx) mk(t string, gt types.Type) Val {
	return Val{T: t, S: fx.c.sortOf(gt), GT: gt}
}

func (fx *Fx) evalMulti(st *State, e ast.Expr) []Val {
	if tv, ok := fx.info.Types[e]; ok && tv.Value != nil {
		if v, ok := fx.constVal(tv); ok {
			return []Val{v}
		}
	}
	c := fx.c
	switch e := e.(type) {
	case *ast.ParenExpr:
		return fx.evalMulti(st, e.X)
	case *ast.BasicLit:
		fx.unsup(e, "literal %s", e.Value)
	case *ast.Ident:
		return []Val{fx.evalIdent(st, e)}
	case *ast.FuncLit:
		fi := fx.w.ByLit[e]
		r := st.allocRef()
		c.declareFun("fn_code", []string{"Int"}, "Int")
		st.assume(fmt.Sprintf("(= (fn_code %s) %d)", r, c.codeId(fi.Key)))
		fx.establishClosureInv(st, e)
		return []Val{{T: r, S: "Int", GT: fx.info.TypeOf(e)}}
	case *ast.CompositeLit:
		return []Val{fx.evalComposite(st, e)}
	case *ast.SelectorExpr:
		if sel := fx.info.Selections[e]; sel != nil {
			switch sel.Kind() {
			case types.FieldVal:
				// reading a field: through a location when addressable, else by value
				xt := fx.info.TypeOf(e.X)
				if _, _, isPtr := structOf(xt); isPtr {
					return []Val{fx.readLoc(st, fx.lvalue(st, e))}
				}
				// struct value
				v := fx.eval(st, e.X)
				cur := xt
				for _, idx := range sel.Index() {
					s, named, isPtr := structOf(cur)
					if s == nil {
						fx.unsup(e, "field selection on %s", cur)
					}
					f := s.Field(idx)
					if isPtr {
						fx.nilCheck(st, v.T, e, "nil-deref")
						fs := c.sortOf(f.Type())
						h := st.heap(fieldKey(named, f.Name()), "(Array Int "+fs+")")
						fx.loadKey = fieldKey(named, f.Name())
						v = fx.loaded(st, Val{T: fmt.Sprintf("(select %s %s)", h, v.T), S: fs, GT: f.Type()})
						fx.loadKey = ""
					} else {
						if opaqueNamed(named) {
							fx.unsup(e, "field of opaque type %s", named)
						}
						v = Val{T: fmt.Sprintf("(%s__%s %s)", c.sortOf(named), f.Name(), v.T), S: c.sortOf(f.Type()), GT: f.Type()}
					}
					cur = f.Type()
				}
				return []Val{v}
			case types.MethodVal:
				// method value: opaque function value bound to receiver
				rv := fx.eval(st, e.X)
				r := st.allocRef()
				c.declareFun("fn_code", []string{"Int"}, "Int")
				c.declareFun("fn_recv", []string{"Int"}, "Iface")
				if fn, ok := sel.Obj().(*types.Func); ok {
					st.assume(fmt.Sprintf("(= (fn_code %s) %d)", r, c.codeId(funcKeyOf(fn))))
				}
				st.assume(fmt.Sprintf("(= (fn_recv %s) %s)", r, c.box(rv)))
				return []Val{{T: r, S: "Int", GT: fx.info.TypeOf(e)}}
			}
			fx.unsup(e, "selection kind")
		}
		// qualified identifier
		return []Val{fx.evalObj(st, fx.info.ObjectOf(e.Sel), e)}
	case *ast.StarExpr:
		return []Val{fx.readLoc(st, fx.lvalue(st, e))}
	case *ast.UnaryExpr:
		return fx.evalUnary(st, e)
	case *ast.BinaryExpr:
		if e.Op == token.LAND || e.Op == token.LOR {
			l := fx.eval(st, e.X)
			lt := c.define("l", "Bool", l.T)
			// the right operand is evaluated only when needed
			var r Val
			guard := lt
			if e.Op == token.LOR {
				guard = "(not " + lt + ")"
			}
			fx.branch(st, guard, func(t *State) { r = fx.eval(t, e.Y) }, func(*State) {})
			if e.Op == token.LAND {
				return []Val{{T: fmt.Sprintf("(and %s %s)", lt, r.T), S: "Bool", GT: fx.info.TypeOf(e)}}
			}
			return []Val{{T: fmt.Sprintf("(or %s %s)", lt, r.T), S: "Bool", GT: fx.info.TypeOf(e)}}
		}
		l := fx.eval(st, e.X)
		r := fx.eval(st, e.Y)
		v := fx.binop(st, e.Op, l, r, e)
		if t := fx.info.TypeOf(e); t != nil {
			v.GT = t
		}
		return []Val{v}
	case *ast.IndexExpr:
		xt := types.Unalias(fx.info.TypeOf(e.X))
		switch u := xt.Underlying().(type) {
		case *types.Slice, *types.Map:
			loc := fx.lvalue(st, e)
			v := fx.readLoc(st, loc)
			if _, isMap := u.(*types.Map); isMap {
				if tup, ok := fx.info.TypeOf(e).(*types.Tuple); ok && tup.Len() == 2 {
					return []Val{v, fx.mapHas(st, loc)}
				}
				// comma-ok form is typed through the assignment: offer both
				return []Val{v, fx.mapHas(st, loc)}
			}
			return []Val{v}
		case *types.Array:
			a := fx.eval(st, e.X)
			i := fx.eval(st, e.Index)
			fx.boundsCheck(st, i.T, fmt.Sprint(u.Len()), e)
			return []Val{{T: fmt.Sprintf("(select %s %s)", a.T, i.T), S: c.sortOf(u.Elem()), GT: u.Elem()}}
		case *types.Basic:
			if u.Info()&types.IsString != 0 {
				s := fx.eval(st, e.X)
				i := fx.eval(st, e.Index)
				fx.boundsCheck(st, i.T, fx.strlen(st, s.T), e)
				c.declareFun("str_at", []string{"Str", "Int"}, "Int")
				b := c.define("ch", "Int", fmt.Sprintf("(str_at %s %s)", s.T, i.T))
				st.assume(fmt.Sprintf("(and (<= 0 %s) (<= %s 255))", b, b))
				return []Val{{T: b, S: "Int", GT: types.Typ[types.Byte]}}
			}
		case *types.Signature:
			// generic instantiation
			return fx.evalMulti(st, e.X)
		}
		fx.unsup(e, "index on %s", xt)
	case *ast.SliceExpr:
		return []Val{fx.evalSliceExpr(st, e)}
	case *ast.CallExpr:
		return fx.callExpr(st, e, nil)
	case *ast.TypeAssertExpr:
		v := fx.eval(st, e.X)
		t := fx.info.TypeOf(e.Type)
		test := c.define("ta", "Bool", fx.typeTest(st, v, t))
		res := fx.fromIface(st, v, t)
		if tup, ok := fx.info.TypeOf(e).(*types.Tuple); ok && tup.Len() == 2 {
			zero := c.zero(t)
			return []Val{{T: fmt.Sprintf("(ite %s %s %s)", test, res.T, zero), S: res.S, GT: t}, {T: test, S: "Bool", GT: types.Typ[types.Bool]}}
		}
		c.oblige(st, "panic", "type-assert("+fx.exprText(e)+")", test, "type assertion holds: "+fx.exprText(e), fx.w.pos(e.Pos()))
		st.assume(test)
		return []Val{res}
	case *ast.KeyValueExpr:
		fx.unsup(e, "key-value outside composite literal")
	}
	fx.unsup(e, "expression %T", e)
	return nil
}

func (fx *Fx) strlen(st *State, s string) string {
	l := fx.c.define("sl", "Int", "(strlen "+s+")")
	st.assume("(>= " + l + " 0)")
	return l
}

func (fx *Fx) mapHas(st *State, l *Loc) Val {
	ks := fx.c.sortOf(l.mapT.Key())
	hd := st.heap("MD:"+l.key, "(Array Int (Array "+ks+" Bool))")
	return Val{T: fmt.Sprintf("(select (select %s %s) %s)", hd, l.ref, l.idx), S: "Bool", GT: types.Typ[types.Bool]}
}

func (fx *Fx) evalIdent(st *State, e *ast.Ident) Val {
	obj := fx.info.ObjectOf(e)
	return fx.evalObj(st, obj, e)
}

func (fx *Fx) evalObj(st *State, obj types.Object, e ast.Expr) Val {
	c := fx.c
	switch o := obj.(type) {
	case *types.Nil:
		t := fx.info.TypeOf(e)
		if t != nil {
			if b, ok := t.(*types.Basic); !ok || b.Kind() != types.UntypedNil {
				return Val{T: c.zero(t), S: c.sortOf(t), GT: t}
			}
		}
		return Val{T: "0", S: "Int", GT: types.Typ[types.UntypedNil]}
	case *types.Var:
		if isGlobal(o) {
			return fx.readLoc(st, &Loc{kind: locGlobal, key: "GV:" + o.Pkg().Name() + "." + o.Name(), srt: c.sortOf(o.Type()), ref: "0", T: o.Type(), obj: o})
		}
		fx.ensureVar(st, o)
		if c.boxedVars[o] {
			if s, named, isPtr := structOf(o.Type()); s != nil && !isPtr && !opaqueNamed(named) {
				return fx.readLoc(st, &Loc{kind: locStructAt, ref: st.vars[o], T: o.Type()})
			}
			return fx.readLoc(st, &Loc{kind: locHeap, key: "P:" + typeKey(o.Type()), srt: c.sortOf(o.Type()), ref: st.vars[o], T: o.Type()})
		}
		return Val{T: st.vars[o], S: c.sortOf(o.Type()), GT: o.Type()}
	case *types.Func:
		name := "fnval_" + sanitize(funcKeyOf(o))
		c.declareConst(name, "Int")
		c.declareFun("fn_code", []string{"Int"}, "Int")
		c.axiomOnce("fnval:"+name, fmt.Sprintf("(and (> %s 0) (= (fn_code %s) %d))", name, name, c.codeId(funcKeyOf(o))))
		return Val{T: name, S: "Int", GT: o.Type()}
	case *types.Const:
		if v, ok := fx.constVal(types.TypeAndValue{Type: o.Type(), Value: o.Val()}); ok {
			return v
		}
	}
	fx.unsup(e, "identifier %v", obj)
	return Val{}
}

func (c *Ctx) axiomOnce(key, a string) {
	if c.declared["ax:"+key] {
		return
	}
	c.markDeclared("ax:" + key)
	c.axiom(a)
}

func (fx *Fx) evalUnary(st *State, e *ast.UnaryExpr) []Val {
	c := fx.c
	switch e.Op {
	case token.SUB:
		v := fx.eval(st, e.X)
		return []Val{{T: "(- " + v.T + ")", S: v.S, GT: v.GT}}
	case token.ADD:
		return []Val{fx.eval(st, e.X)}
	case token.NOT:
		v := fx.eval(st, e.X)
		return []Val{{T: "(not " + v.T + ")", S: "Bool", GT: v.GT}}
	case token.ARROW:
		ch := fx.eval(st, e.X)
		v, ok := fx.chanRecv(st, ch, e)
		return []Val{v, ok}
	case token.AND:
		x := unparen(e.X)
		if cl, ok := x.(*ast.CompositeLit); ok {
			v := fx.evalComposite(st, cl)
			t := fx.info.TypeOf(cl)
			r := st.allocRef()
			if s, named, _ := structOf(t); s != nil && !opaqueNamed(named) {
				fx.writeStructAt(st, r, t, v)
			} else {
				hs := "(Array Int " + v.S + ")"
				key := "P:" + typeKey(t)
				st.setHeap(key, hs, fmt.Sprintf("(store %s %s %s)", st.heap(key, hs), r, v.T))
			}
			return []Val{{T: r, S: "Int", GT: fx.info.TypeOf(e)}}
		}
		if id, ok := x.(*ast.Ident); ok {
			if v, isVar := fx.info.ObjectOf(id).(*types.Var); isVar && c.boxedVars[v] {
				fx.ensureVar(st, v)
				return []Val{{T: st.vars[v], S: "Int", GT: fx.info.TypeOf(e)}}
			}
		}
		// address of a field / element: an abstract interior pointer
		loc := fx.lvalue(st, x)
		if loc.kind == locStructAt && len(loc.path) == 1 {
			// a field of a struct that lives on the heap (boxed local, *p): the field's own heap location
			if _, named, _ := structOf(loc.T); named != nil {
				p0 := loc.path[0]
				loc = &Loc{kind: locHeap, key: fieldKey(named, p0.field), srt: c.sortOf(p0.T), ref: loc.ref, T: p0.T}
			}
		}
		switch loc.kind {
		case locElem:
			// pointer to a slice element: abstract, injective in (array, index); see DESIGN (element pointers)
			if len(loc.path) == 0 {
				return []Val{{T: fx.elemPtr(st, loc.T, loc.ref, loc.idx), S: "Int", GT: fx.info.TypeOf(e)}}
			}
		case locStructAt:
			return []Val{{T: loc.ref, S: "Int", GT: fx.info.TypeOf(e)}}
		case locHeap, locGlobal:
			fx.readLoc(st, loc) // records the declared facts (nonnil, ranges) about the current content
			id := fx.locIdentity(st, loc)
			t := c.define("ip", "Int", id)
			st.assume(fmt.Sprintf("(< %s 0)", t)) // interior addresses never coincide with allocated objects
			fx.c.interior[t] = loc
			// snapshot: a read through a copy of this pointer whose origin is no longer known sees the current value
			// (sound while the field is not written through the other alias afterwards; noted as an assumption)
			if pt := loc.locType(); pt != nil && loc.kind == locHeap {
				if s, named, _ := structOf(pt); s == nil || opaqueNamed(named) {
					cur := fx.readLoc(st, loc)
					hs := "(Array Int " + cur.S + ")"
					key := "P:" + typeKey(pt)
					st.setHeap(key, hs, fmt.Sprintf("(store %s %s %s)", st.heap(key, hs), t, cur.T))
					c.warn("interior pointer %s: reads through untracked copies see the value at the time the address was taken", fx.exprText(e))
				}
			}
			return []Val{{T: t, S: "Int", GT: fx.info.TypeOf(e)}}
		}
		fx.unsup(e, "address of %s", fx.exprText(x))
	case token.XOR:
		v := fx.eval(st, e.X)
		return []Val{{T: fmt.Sprintf("(- (- %s) 1)", v.T), S: v.S, GT: v.GT}}
	}
	fx.unsup(e, "unary %s", e.Op)
	return nil
}

func (fx *Fx) evalSliceExpr(st *State, e *ast.SliceExpr) Val {
	c := fx.c
	xt := types.Unalias(fx.info.TypeOf(e.X))
	switch u := xt.Underlying().(type) {
	case *types.Slice:
		s := fx.eval(st, e.X)
		s.T = c.define("s", "Slice", s.T)
		fx.wfSlice(st, s.T)
		lo, hi, mx := "0", "(s_len "+s.T+")", "(s_cap "+s.T+")"
		if e.Low != nil {
			lo = fx.eval(st, e.Low).T
		}
		if e.High != nil {
			hi = fx.eval(st, e.High).T
		}
		if e.Max != nil {
			mx = fx.eval(st, e.Max).T
		}
		phi := fmt.Sprintf("(and (<= 0 %s) (<= %s %s) (<= %s %s) (<= %s (s_cap %s)))", lo, lo, hi, hi, mx, mx, s.T)
		c.oblige(st, "panic", "slice("+fx.exprText(e)+")", phi, "slice bounds in range: "+fx.exprText(e), fx.w.pos(e.Pos()))
		st.assume(phi)
		return Val{T: fmt.Sprintf("(mkSlice (s_base %s) (+ (s_off %s) %s) (- %s %s) (- %s %s))", s.T, s.T, lo, hi, lo, mx, lo), S: "Slice", GT: fx.info.TypeOf(e)}
	case *types.Basic:
		if u.Info()&types.IsString != 0 {
			s := fx.eval(st, e.X)
			n := fx.strlen(st, s.T)
			lo, hi := "0", n
			if e.Low != nil {
				lo = fx.eval(st, e.Low).T
			}
			if e.High != nil {
				hi = fx.eval(st, e.High).T
			}
			phi := fmt.Sprintf("(and (<= 0 %s) (<= %s %s) (<= %s %s))", lo, lo, hi, hi, n)
			c.oblige(st, "panic", "slice("+fx.exprText(e)+")", phi, "string slice bounds in range: "+fx.exprText(e), fx.w.pos(e.Pos()))
			st.assume(phi)
			c.declareFun("substr", []string{"Str", "Int", "Int"}, "Str")
			r := c.define("sub", "Str", fmt.Sprintf("(substr %s %s %s)", s.T, lo, hi))
			st.assume(fmt.Sprintf("(= (strlen %s) (- %s %s))", r, hi, lo))
			return Val{T: r, S: "Str", GT: fx.info.TypeOf(e)}
		}
	}
	fx.unsup(e, "slice expression on %s", xt)
	return Val{}
}

func (fx *Fx) evalComposite(st *State, e *ast.CompositeLit) Val {
	c := fx.c
	t := fx.info.TypeOf(e)
	if opaqueNamed(t) {
		return Val{T: c.zero(t), S: c.sortOf(t), GT: t}
	}
	switch u := types.Unalias(t).Underlying().(type) {
	case *types.Struct:
		srt := c.sortOf(t)
		vals := make([]string, u.NumFields())
		for i := range vals {
			vals[i] = c.zero(u.Field(i).Type())
		}
		for i, el := range e.Elts {
			if kv, ok := el.(*ast.KeyValueExpr); ok {
				name := kv.Key.(*ast.Ident).Name
				for j := 0; j < u.NumFields(); j++ {
					if u.Field(j).Name() == name {
						vals[j] = fx.convertTo(st, fx.eval(st, kv.Value), u.Field(j).Type()).T
					}
				}
			} else {
				vals[i] = fx.convertTo(st, fx.eval(st, el), u.Field(i).Type()).T
			}
		}
		if u.NumFields() == 0 {
			return Val{T: "mk_" + srt, S: srt, GT: t}
		}
		return Val{T: "(mk_" + srt + " " + strings.Join(vals, " ") + ")", S: srt, GT: t}
	case *types.Slice:
		n := 0
		var elems []Val
		for _, el := range e.Elts {
			if _, ok := el.(*ast.KeyValueExpr); ok {
				fx.unsup(e, "keyed slice literal")
			}
			elems = append(elems, fx.convertTo(st, fx.eval(st, el), u.Elem()))
			n++
		}
		r := st.allocRef()
		es := c.sortOf(u.Elem())
		key := "E:" + typeKey(u.Elem())
		hs := "(Array Int (Array Int " + es + "))"
		h := st.heap(key, hs)
		arr := fmt.Sprintf("((as const (Array Int %s)) %s)", es, c.zero(u.Elem()))
		for i, v := range elems {
			arr = fmt.Sprintf("(store %s %d %s)", arr, i, v.T)
		}
		st.setHeap(key, hs, fmt.Sprintf("(store %s %s %s)", h, r, arr))
		return Val{T: fmt.Sprintf("(mkSlice %s 0 %d %d)", r, n, n), S: "Slice", GT: t}
	case *types.Map:
		r := st.allocRef()
		ks, vs := c.sortOf(u.Key()), c.sortOf(u.Elem())
		key := typeKey(t)
		hds, hvs := "(Array Int (Array "+ks+" Bool))", "(Array Int (Array "+ks+" "+vs+"))"
		dom := fmt.Sprintf("((as const (Array %s Bool)) false)", ks)
		val := fmt.Sprintf("((as const (Array %s %s)) %s)", ks, vs, c.zero(u.Elem()))
		for _, el := range e.Elts {
			kv := el.(*ast.KeyValueExpr)
			k := fx.convertTo(st, fx.eval(st, kv.Key), u.Key())
			v := fx.convertTo(st, fx.eval(st, kv.Value), u.Elem())
			dom = fmt.Sprintf("(store %s %s true)", dom, k.T)
			val = fmt.Sprintf("(store %s %s %s)", val, k.T, v.T)
		}
		st.setHeap("MD:"+key, hds, fmt.Sprintf("(store %s %s %s)", st.heap("MD:"+key, hds), r, dom))
		st.setHeap("MV:"+key, hvs, fmt.Sprintf("(store %s %s %s)", st.heap("MV:"+key, hvs), r, val))
		return Val{T: r, S: "Int", GT: t}
	case *types.Array:
		es := c.sortOf(u.Elem())
		arr := fmt.Sprintf("((as const (Array Int %s)) %s)", es, c.zero(u.Elem()))
		for i, el := range e.Elts {
			if _, ok := el.(*ast.KeyValueExpr); ok {
				fx.unsup(e, "keyed array literal")
			}
			arr = fmt.Sprintf("(store %s %d %s)", arr, i, fx.convertTo(st, fx.eval(st, el), u.Elem()).T)
		}
		return Val{T: arr, S: c.sortOf(t), GT: t}
	}
	fx.unsup(e, "composite literal of %s", t)
	return Val{}
}

// convertTo adapts a value to a target type (boxing into interfaces; numeric sorts).
func (fx *Fx) convertTo(st *State, v Val, t types.Type) Val {
	if t == nil {
		return v
	}
	c := fx.c
	ts := c.sortOf(t)
	_, toIface := types.Unalias(t).Underlying().(*types.Interface)
	if toIface {
		if v.S == "Iface" {
			return Val{T: v.T, S: "Iface", GT: t}
		}
		if v.GT != nil {
			if b, ok := v.GT.(*types.Basic); ok && b.Kind() == types.UntypedNil {
				return Val{T: "(mkIface 0 0)", S: "Iface", GT: t}
			}
			// untyped constants take their default type
			if b, ok := v.GT.(*types.Basic); ok && b.Info()&types.IsUntyped != 0 {
				v.GT = types.Default(v.GT)
			}
		}
		bx := c.box(v)
		// a typed nil pointer in an interface is non-nil; tags are positive
		return Val{T: bx, S: "Iface", GT: t}
	}
	if v.S == ts {
		return Val{T: v.T, S: ts, GT: t}
	}
	if v.S == "Int" && ts == "Real" {
		return Val{T: "(to_real " + v.T + ")", S: ts, GT: t}
	}
	if v.S == "Real" && ts == "Int" {
		// truncation toward zero
		return Val{T: fmt.Sprintf("(ite (>= %s 0.0) (to_int %s) (- (to_int (- %s))))", v.T, v.T, v.T), S: ts, GT: t}
	}
	if v.S == "Int" && (ts == "Slice" || ts == "Iface") && v.T == "0" {
		return Val{T: c.zero(t), S: ts, GT: t}
	}
	return Val{T: v.T, S: v.S, GT: t}
}

func (fx *Fx) eqTerm(st *State, a, b Val) string {
	if a.S != b.S {
		// nil against slice/iface/etc.
		if a.T == "0" && a.S == "Int" {
			a = Val{T: fx.c.zeroOfSort(b.S), S: b.S}
		} else if b.T == "0" && b.S == "Int" {
			b = Val{T: fx.c.zeroOfSort(a.S), S: a.S}
		} else if a.S == "Iface" && b.GT != nil {
			b = fx.convertTo(st, b, a.GT)
		} else if b.S == "Iface" && a.GT != nil {
			a = fx.convertTo(st, a, b.GT)
		} else if a.S == "Int" && b.S == "Real" {
			a = Val{T: "(to_real " + a.T + ")", S: "Real"}
		} else if a.S == "Real" && b.S == "Int" {
			b = Val{T: "(to_real " + b.T + ")", S: "Real"}
		}
	}
	if a.S == "Slice" {
		// only comparison with nil is legal Go
		if b.T == "(mkSlice 0 0 0 0)" {
			return fmt.Sprintf("(= (s_base %s) 0)", a.T)
		}
		if a.T == "(mkSlice 0 0 0 0)" {
			return fmt.Sprintf("(= (s_base %s) 0)", b.T)
		}
	}
	if a.S == "Iface" && b.T == "(mkIface 0 0)" {
		return fmt.Sprintf("(= (i_tag %s) 0)", a.T)
	}
	if b.S == "Iface" && a.T == "(mkIface 0 0)" {
		return fmt.Sprintf("(= (i_tag %s) 0)", b.T)
	}
	return fmt.Sprintf("(= %s %s)", a.T, b.T)
}

func (fx *Fx) binop(st *State, op token.Token, l, r Val, n ast.Node) Val {
	c := fx.c
	// unify numeric sorts
	if l.S == "Int" && r.S == "Real" {
		l = Val{T: "(to_real " + l.T + ")", S: "Real", GT: r.GT}
	}
	if l.S == "Real" && r.S == "Int" {
		r = Val{T: "(to_real " + r.T + ")", S: "Real", GT: l.GT}
	}
	boolT := types.Typ[types.Bool]
	switch op {
	case token.EQL:
		return Val{T: fx.eqTerm(st, l, r), S: "Bool", GT: boolT}
	case token.NEQ:
		return Val{T: "(not " + fx.eqTerm(st, l, r) + ")", S: "Bool", GT: boolT}
	case token.LSS, token.LEQ, token.GTR, token.GEQ:
		if l.S == "Str" {
			c.declareFun("str_lt", []string{"Str", "Str"}, "Bool")
			switch op {
			case token.LSS:
				return Val{T: fmt.Sprintf("(str_lt %s %s)", l.T, r.T), S: "Bool", GT: boolT}
			case token.GTR:
				return Val{T: fmt.Sprintf("(str_lt %s %s)", r.T, l.T), S: "Bool", GT: boolT}
			case token.LEQ:
				return Val{T: fmt.Sprintf("(not (str_lt %s %s))", r.T, l.T), S: "Bool", GT: boolT}
			default:
				return Val{T: fmt.Sprintf("(not (str_lt %s %s))", l.T, r.T), S: "Bool", GT: boolT}
			}
		}
		o := map[token.Token]string{token.LSS: "<", token.LEQ: "<=", token.GTR: ">", token.GEQ: ">="}[op]
		return Val{T: fmt.Sprintf("(%s %s %s)", o, l.T, r.T), S: "Bool", GT: boolT}
	case token.ADD:
		if l.S == "Str" {
			return Val{T: fmt.Sprintf("(str_concat %s %s)", l.T, r.T), S: "Str", GT: l.GT}
		}
		return fx.wrap(Val{T: fmt.Sprintf("(+ %s %s)", l.T, r.T), S: l.S, GT: l.GT})
	case token.SUB:
		return fx.wrap(Val{T: fmt.Sprintf("(- %s %s)", l.T, r.T), S: l.S, GT: l.GT})
	case token.MUL:
		return fx.wrap(Val{T: fmt.Sprintf("(* %s %s)", l.T, r.T), S: l.S, GT: l.GT})
	case token.QUO:
		if l.S == "Real" {
			return Val{T: fmt.Sprintf("(/ %s %s)", l.T, r.T), S: "Real", GT: l.GT}
		}
		c.oblige(st, "panic", "div("+fx.exprText(n)+")", fmt.Sprintf("(not (= %s 0))", r.T), "division by zero: "+fx.exprText(n), fx.w.pos(n.Pos()))
		st.assume(fmt.Sprintf("(not (= %s 0))", r.T))
		// Go truncates toward zero
		q := fmt.Sprintf("(ite (>= %s 0) (div %s %s) (- (div (- %s) %s)))", l.T, l.T, r.T, l.T, r.T)
		return Val{T: q, S: "Int", GT: l.GT}
	case token.REM:
		c.oblige(st, "panic", "div("+fx.exprText(n)+")", fmt.Sprintf("(not (= %s 0))", r.T), "division by zero: "+fx.exprText(n), fx.w.pos(n.Pos()))
		st.assume(fmt.Sprintf("(not (= %s 0))", r.T))
		q := fmt.Sprintf("(ite (>= %s 0) (mod %s %s) (- (mod (- %s) %s)))", l.T, l.T, r.T, l.T, r.T)
		return Val{T: q, S: "Int", GT: l.GT}
	case token.AND, token.OR, token.XOR, token.SHL, token.SHR, token.AND_NOT:
		name := map[token.Token]string{token.AND: "bit_and", token.OR: "bit_or", token.XOR: "bit_xor", token.SHL: "bit_shl", token.SHR: "bit_shr", token.AND_NOT: "bit_andnot"}[op]
		c.declareFun(name, []string{"Int", "Int"}, "Int")
		t := fmt.Sprintf("(%s %s %s)", name, l.T, r.T)
		if op == token.AND {
			// two's complement: x & m with a non-negative operand lies between 0 and that operand
			t = c.define("band", "Int", t)
			st.assume(fmt.Sprintf("(=> (>= %s 0) (and (<= 0 %s) (<= %s %s)))", r.T, t, t, r.T))
			st.assume(fmt.Sprintf("(=> (>= %s 0) (and (<= 0 %s) (<= %s %s)))", l.T, t, t, l.T))
		}
		return Val{T: t, S: "Int", GT: l.GT}
	}
	fx.unsup(n, "binary operator %s", op)
	return Val{}
}

// wrap: machine arithmetic is treated as mathematical (stated assumption).
func (fx *Fx) wrap(v Val) Val { return v }

// ---------------------------------------------------------------------------
// channels

func (fx *Fx) chanHeaps(st *State) (closed string) {
	return st.heap("CC", "(Array Int Bool)")
}

func (fx *Fx) chanSend(st *State, ch Val, v Val, n ast.Node) {
	c := fx.c
	if fx.spec != nil && fx.spec.Flags["checksend"] != "" {
		closed := fx.chanHeaps(st)
		c.oblige(st, "chan-send-open", "send("+fx.exprText(n)+")", fmt.Sprintf("(not (select %s %s))", closed, ch.T), "send on open channel: "+fx.exprText(n), fx.w.pos(n.Pos()))
		st.assume(fmt.Sprintf("(not (select %s %s))", closed, ch.T))
	}
	st.logEvent(evTerm("Send", ch.T, c.box(v), "", ""))
}

func (fx *Fx) chanRecv(st *State, ch Val, n ast.Node) (Val, Val) {
	c := fx.c
	el := chanElem(ch.GT)
	if el == nil {
		fx.unsup(n, "receive from non-channel")
	}
	es := c.sortOf(el)
	v := c.freshConst("rcv", es)
	if ra := c.rangeAssume(v, el); ra != "" {
		st.assume(ra)
	}
	ok := c.freshConst("rok", "Bool")
	rv := Val{T: v, S: es, GT: el}
	fx.boundRefs(st, v, el, 0)
	if isNamed(el, "time", "Time") {
		// clocks promise a lower bound for what their channels deliver (IClock.Until / After)
		// (assumed of every IClock: each receive from a clock channel yields a time >= the channel's bound)
		st.assume(fmt.Sprintf("(>= %s (select %s %s))", v, st.heap("CLB", "(Array Int Int)"), ch.T))
	}
	// a value received from a closed, drained channel is the zero value
	st.assume(fmt.Sprintf("(=> (not %s) (= %s %s))", ok, v, c.zero(el)))
	// the event records ok (recvok): false means the channel was closed and drained.  (That this implies closed(ch) is
	// not assumed: the model has no interleaving, so a channel known open at an earlier select would make the branch
	// that handles the closure look unreachable.)
	st.logEvent(evTerm("Recv", ch.T, c.box(rv), "", fmt.Sprintf("(ite %s 1 0)", ok)))
	if _, isNamedT := types.Unalias(el).(*types.Named); isNamedT && fx.spec != nil && len(fx.spec.RecvInv) > 0 {
		if _, isIf := types.Unalias(el).Underlying().(*types.Interface); !isIf {
			// a channel of a concrete message type: the declared message invariant is assumed of whatever it delivers
			// (which includes the assumption that such a channel is not closed while it is being received from)
			fx.assumeRecvInvIf(st, rv, el, n.Pos(), "true")
		}
	}
	return rv, Val{T: ok, S: "Bool", GT: types.Typ[types.Bool]}
}

// elemPtr: the address of element idx of backing array base (element type t).
func (fx *Fx) elemPtr(st *State, t types.Type, base, idx string) string {
	c := fx.c
	name := "elemaddr_" + typeKey(t)
	c.declareFun(name, []string{"Int", "Int"}, "Int")
	c.declareFun(name+"_base", []string{"Int"}, "Int")
	c.declareFun(name+"_idx", []string{"Int"}, "Int")
	p := c.define("ep", "Int", fmt.Sprintf("(%s %s %s)", name, base, idx))
	if st != nil {
		st.assume(fmt.Sprintf("(and (> %s 0) (= (%s_base %s) %s) (= (%s_idx %s) %s))", p, name, p, base, name, p, idx))
	}
	return p
}

// wfSlice: every Go slice value is well formed (0 <= len <= cap, nil base implies cap 0).
func (fx *Fx) wfSlice(st *State, t string) {
	if fx.c.wfDone == nil {
		fx.c.wfDone = map[string]bool{}
	}
	k := st.pc + "|" + t
	if fx.c.wfDone[k] {
		return
	}
	fx.c.wfDone[k] = true
	st.assume(fmt.Sprintf("(and (<= 0 (s_off %s)) (<= 0 (s_len %s)) (<= (s_len %s) (s_cap %s)) (>= (s_base %s) 0) (=> (= (s_base %s) 0) (= (s_cap %s) 0)))", t, t, t, t, t, t, t))
}

// boundRefs: every reference contained in an existing value (received from a channel, taken out of an interface)
// denotes an object that already exists: it is not one this activation allocates later.
func (fx *Fx) boundRefs(st *State, term string, t types.Type, depth int) {
	if depth > 3 || t == nil {
		return
	}
	switch u := types.Unalias(t).Underlying().(type) {
	case *types.Pointer, *types.Chan, *types.Map:
		st.assume(fmt.Sprintf("(<= %s %s)", term, st.alloc))
		if rf := fx.c.refTypeFact(term, t); rf != "" {
			st.assume(rf)
		}
	case *types.Slice:
		st.assume(fmt.Sprintf("(<= (s_base %s) %s)", term, st.alloc))
		if ra := fx.c.rangeAssume(term, t); ra != "" {
			st.assume(ra)
		}
	case *types.Struct:
		if opaqueNamed(t) {
			return
		}
		srt := fx.c.sortOf(t)
		for i := 0; i < u.NumFields(); i++ {
			f := u.Field(i)
			fx.boundRefs(st, fmt.Sprintf("(%s__%s %s)", srt, f.Name(), term), f.Type(), depth+1)
		}
	}
}
