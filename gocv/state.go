package main

import (
	"fmt"
	"go/ast"
	"go/types"
	"sort"
	"strings"
)

type deferred struct {
	call *ast.CallExpr
	// pre-evaluated pieces
	recv Val
	args []Val
	lit  *ast.FuncLit
	id   int
}

type State struct {
	c      *Ctx
	pc     string
	vars   map[types.Object]string
	heaps  map[string]string
	epoch  int
	evlog  string
	evlen  string
	alloc  string
	dead   bool
	defers []deferred
	ghost  map[string]string // named ghost scalars (Int / Bool terms)
}

func newState(c *Ctx) *State {
	st := &State{c: c, vars: map[types.Object]string{}, heaps: map[string]string{}, ghost: map[string]string{}}
	st.pc = "true"
	st.evlog = c.freshConst("evlog", "(Array Int Ev)")
	st.evlen = c.freshConst("evlen", "Int")
	st.alloc = c.freshConst("alloc", "Int")
	st.assume(fmt.Sprintf("(and (>= %s 0) (>= %s 1))", st.evlen, st.alloc))
	return st
}

func (st *State) clone() *State {
	n := *st
	n.vars = make(map[types.Object]string, len(st.vars))
	for k, v := range st.vars {
		n.vars[k] = v
	}
	n.heaps = make(map[string]string, len(st.heaps))
	for k, v := range st.heaps {
		n.heaps[k] = v
	}
	n.ghost = make(map[string]string, len(st.ghost))
	for k, v := range st.ghost {
		n.ghost[k] = v
	}
	n.defers = append([]deferred(nil), st.defers...)
	return &n
}

func (st *State) assume(phi string) {
	if phi == "" || phi == "true" {
		return
	}
	c := st.c
	n := c.freshConst("pc", "Bool")
	c.asserts = append(c.asserts, fmt.Sprintf("(assert (=> %s (and %s %s)))", n, st.pc, phi))
	c.pcParent[n] = st.pc
	c.pcPhi[n] = phi
	st.pc = n
}

// heap sorts are registered in the Ctx the first time a key is used
type heapInfo struct{ sort string }

var _ = sort.Strings

func (c *Ctx) heapSort(key string) string {
	return c.heapSorts()[key]
}

func (c *Ctx) heapSorts() map[string]string {
	if c.hs == nil {
		c.hs = map[string]string{}
	}
	return c.hs
}

func (st *State) heap(key, srt string) string {
	c := st.c
	hs := c.heapSorts()
	if old, ok := hs[key]; ok && old != srt {
		panic(fmt.Errorf("heap %s used at sorts %s and %s", key, old, srt))
	}
	hs[key] = srt
	if h, ok := st.heaps[key]; ok {
		c.declareConst(h, srt) // names handed out by havocHeap before the sort was known are declared on first use
		return h
	}
	n := fmt.Sprintf("H_%s_e%d", sanitize(key), st.epoch)
	c.declareConst(n, srt)
	return n
}

func (st *State) setHeap(key, srt, term string) {
	st.c.heapSorts()[key] = srt
	st.heaps[key] = st.c.define("H_"+key, srt, term)
}

func (st *State) havocHeap(key string) {
	srt, ok := st.c.heapSorts()[key]
	if !ok {
		// never used so far: reserve a name now (so that clones of this state agree), declare it at first use
		st.heaps[key] = st.c.fresh("H_" + key)
		return
	}
	if key == "CC" {
		// whatever else happened: a closed channel stays closed
		old := st.heap(key, srt)
		nw := st.c.freshConst("H_"+key, srt)
		st.heaps[key] = nw
		st.assume(fmt.Sprintf("(forall ((c!c Int)) (! (=> (select %s c!c) (select %s c!c)) :pattern ((select %s c!c))))", old, nw, nw))
		return
	}
	st.heaps[key] = st.c.freshConst("H_"+key, srt)
}

func (st *State) havocAllHeaps() {
	st.epoch = st.c.nextEpoch()
	st.heaps = map[string]string{}
}

func (c *Ctx) nextEpoch() int {
	c.epochs++
	return c.epochs
}

// alloc returns a fresh non-nil reference.
func (st *State) allocRef() string {
	c := st.c
	r := c.define("ref", "Int", fmt.Sprintf("(+ %s 1)", st.alloc))
	st.alloc = r
	return r
}

const cntSort = "(Array Int (Array Int Int))"
const lvSort = "(Array Int (Array Int Iface))"

func (st *State) logEvent(ev string) {
	c := st.c
	e := c.define("ev", "Ev", ev)
	st.evlog = c.define("evlog", "(Array Int Ev)", fmt.Sprintf("(store %s %s %s)", st.evlog, st.evlen, e))
	st.evlen = c.define("evlen", "Int", fmt.Sprintf("(+ %s 1)", st.evlen))
	// ghost counters: events by (kind, dynamic type of the payload | code id) and by (kind, channel/object)
	k := "(ev_kind " + e + ")"
	t := c.define("evt", "Int", fmt.Sprintf("(ite (or (= %s 1) (= %s 2) (= %s 4)) (i_tag (ev_val %s)) (ev_ch %s))", k, k, k, e, e))
	cnt := st.heap("CNT", cntSort)
	st.setHeap("CNT", cntSort, fmt.Sprintf("(store %s %s (store (select %s %s) %s (+ (select (select %s %s) %s) 1)))", cnt, k, cnt, k, t, cnt, k, t))
	// ghost: the payload of the most recent event per (kind, dynamic type | code)
	lv := st.heap("LV", lvSort)
	st.setHeap("LV", lvSort, fmt.Sprintf("(store %s %s (store (select %s %s) %s (ev_val %s)))", lv, k, lv, k, t, e))
	cnc := st.heap("CNC", cntSort)
	ch := "(ev_ch " + e + ")"
	st.setHeap("CNC", cntSort, fmt.Sprintf("(store %s %s (store (select %s %s) %s (+ (select (select %s %s) %s) 1)))", cnc, k, cnc, k, ch, cnc, k, ch))
}

// havocLog: unknown number of events appended (prefix preserved).
func (st *State) havocLog() {
	c := st.c
	oldLog, oldLen := st.evlog, st.evlen
	st.evlog = c.freshConst("evlog", "(Array Int Ev)")
	st.evlen = c.freshConst("evlen", "Int")
	st.assume(fmt.Sprintf("(>= %s %s)", st.evlen, oldLen))
	// prefix preserved: stated pointwise through an uninterpreted witness-free quantifier
	st.assume(fmt.Sprintf("(forall ((k!p Int)) (! (=> (and (<= 0 k!p) (< k!p %s)) (= (select %s k!p) (select %s k!p))) :pattern ((select %s k!p))))", oldLen, st.evlog, oldLog, st.evlog))
	// the most recent payload of a (kind, type) changes only together with its counter
	{
		oldCnt, oldLv := st.heap("CNT", cntSort), st.heap("LV", lvSort)
		defer func() {
			nwLv := st.heap("LV", lvSort)
			st.assume(fmt.Sprintf("(forall ((k!c Int) (t!c Int)) (! (=> (= (select (select %s k!c) t!c) (select (select %s k!c) t!c)) (= (select (select %s k!c) t!c) (select (select %s k!c) t!c))) :pattern ((select (select %s k!c) t!c))))",
				st.heap("CNT", cntSort), oldCnt, nwLv, oldLv, nwLv))
		}()
		st.havocHeap("LV")
	}
	// counters only grow
	for _, h := range []string{"CNT", "CNC"} {
		old := st.heap(h, cntSort)
		st.havocHeap(h)
		nw := st.heap(h, cntSort)
		st.assume(fmt.Sprintf("(forall ((k!c Int) (t!c Int)) (! (>= (select (select %s k!c) t!c) (select (select %s k!c) t!c)) :pattern ((select (select %s k!c) t!c))))", nw, old, nw))
	}
}

// havocLogOpaque: unknown code (function values, callees outside the loaded packages) appends only opaque events:
// it is assumed not to communicate on the channels, tracers, locks and wait groups of the activation under analysis.
func (st *State) havocLogOpaque() { st.havocLogKinds(false) }

// havocLogKinds: only opaque events (and, with calls, interface-call events) are appended.
func (st *State) havocLogKinds(calls bool) {
	oldLen := st.evlen
	oldCnt, oldCnc := st.heap("CNT", cntSort), st.heap("CNC", cntSort)
	st.havocLog()
	// only events of kind Other were appended: every other counter is unchanged
	var eqs []string
	for _, k := range []int{1, 2, 3, 4, 5, 6, 7, 8, 9, 10, 11, 13} {
		if calls && k == evKinds["Call"] {
			continue
		}
		eqs = append(eqs, fmt.Sprintf("(= (select %s %d) (select %s %d)) (= (select %s %d) (select %s %d))", st.heap("CNT", cntSort), k, oldCnt, k, st.heap("CNC", cntSort), k, oldCnc, k))
	}
	st.assume("(and " + strings.Join(eqs, " ") + ")")
	// (calls of function values made inside that code are abstracted to opaque events as well: FnCall events in a log
	// are the calls made by the function under contract itself and by callees with precise event contracts)
	kindOK := fmt.Sprintf("(= (ev_kind (select %s k!p)) %d)", st.evlog, evKinds["Other"])
	if calls {
		kindOK = fmt.Sprintf("(or %s (= (ev_kind (select %s k!p)) %d))", kindOK, st.evlog, evKinds["Call"])
	}
	st.assume(fmt.Sprintf("(forall ((k!p Int)) (! (=> (and (<= %s k!p) (< k!p %s)) %s) :pattern ((select %s k!p))))", oldLen, st.evlen, kindOK, st.evlog))
}

// ghostSorted stores a ghost value of an arbitrary sort (merge uses the recorded sort).
func (st *State) ghostSorted(name, srt, term string) {
	st.ghost[name] = term
	if st.c.ghostSorts == nil {
		st.c.ghostSorts = map[string]string{}
	}
	st.c.ghostSorts[name] = srt
}

func (st *State) havocAlloc() {
	old := st.alloc
	st.alloc = st.c.freshConst("alloc", "Int")
	st.assume(fmt.Sprintf("(>= %s %s)", st.alloc, old))
}

// mergeStates joins several states (mutually exclusive path conditions).
func mergeStates(c *Ctx, sts []*State) *State {
	var live []*State
	for _, s := range sts {
		if s != nil && !s.dead {
			live = append(live, s)
		}
	}
	if len(live) == 0 {
		d := newDead(c)
		return d
	}
	if len(live) == 1 {
		return live[0]
	}
	m := live[0].clone()
	// pc
	var pcs []string
	for _, s := range live {
		pcs = append(pcs, s.pc)
	}
	npc := c.freshConst("pc", "Bool")
	c.asserts = append(c.asserts, fmt.Sprintf("(assert (=> %s (or %s)))", npc, strings.Join(pcs, " ")))
	m.pc = npc
	pick := func(prefix, srt string, vals []string) string {
		same := true
		for _, v := range vals[1:] {
			if v != vals[0] {
				same = false
			}
		}
		if same {
			return vals[0]
		}
		t := vals[len(vals)-1]
		for i := len(vals) - 2; i >= 0; i-- {
			if vals[i] == t {
				continue
			}
			t = fmt.Sprintf("(ite %s %s %s)", live[i].pc, vals[i], t)
		}
		return c.define(prefix, srt, t)
	}
	// vars: only those present in all
	var mvars []types.Object
	for obj := range live[0].vars {
		mvars = append(mvars, obj)
	}
	sort.Slice(mvars, func(i, j int) bool {
		if mvars[i].Pos() != mvars[j].Pos() {
			return mvars[i].Pos() < mvars[j].Pos()
		}
		return mvars[i].Name() < mvars[j].Name()
	})
	for _, obj := range mvars {
		vals := make([]string, 0, len(live))
		ok := true
		for _, s := range live {
			v, has := s.vars[obj]
			if !has {
				ok = false
				break
			}
			vals = append(vals, v)
		}
		if !ok {
			delete(m.vars, obj)
			continue
		}
		m.vars[obj] = pick(obj.Name(), c.varSort(obj), vals)
	}
	// heaps
	maxEpoch := 0
	for _, s := range live {
		if s.epoch > maxEpoch {
			maxEpoch = s.epoch
		}
	}
	keys := map[string]bool{}
	for _, s := range live {
		for k := range s.heaps {
			keys[k] = true
		}
	}
	epochDiffer := false
	for _, s := range live {
		if s.epoch != maxEpoch {
			epochDiffer = true
		}
	}
	if epochDiffer {
		for k := range c.heapSorts() {
			keys[k] = true
		}
	}
	m.epoch = maxEpoch
	m.heaps = map[string]string{}
	ks := make([]string, 0, len(keys))
	for k := range keys {
		ks = append(ks, k)
	}
	sort.Strings(ks)
	for _, k := range ks {
		srt, known := c.heapSorts()[k]
		if !known {
			// no state has read it yet: any reserved name will do if all agree, else reserve a new one
			same := true
			for _, s := range live {
				if s.heaps[k] != live[0].heaps[k] {
					same = false
				}
			}
			if same {
				m.heaps[k] = live[0].heaps[k]
			} else {
				m.heaps[k] = c.fresh("H_" + k)
			}
			continue
		}
		vals := make([]string, 0, len(live))
		for _, s := range live {
			vals = append(vals, s.heap(k, srt))
		}
		m.heaps[k] = pick("H_"+k, srt, vals)
	}
	// ghost scalars
	for _, g := range sortedKeys(live[0].ghost) {
		vals := make([]string, 0, len(live))
		ok := true
		for _, s := range live {
			v, has := s.ghost[g]
			if !has {
				ok = false
				break
			}
			vals = append(vals, v)
		}
		if !ok {
			delete(m.ghost, g)
			continue
		}
		srt := "Int"
		if strings.HasPrefix(g, "b:") {
			srt = "Bool"
		}
		if gs, ok := c.ghostSorts[g]; ok {
			srt = gs
		}
		m.ghost[g] = pick(g, srt, vals)
	}
	var logs, lens, allocs []string
	for _, s := range live {
		logs = append(logs, s.evlog)
		lens = append(lens, s.evlen)
		allocs = append(allocs, s.alloc)
	}
	m.evlog = pick("evlog", "(Array Int Ev)", logs)
	m.evlen = pick("evlen", "Int", lens)
	m.alloc = pick("alloc", "Int", allocs)
	// defers must agree
	for _, s := range live[1:] {
		if len(s.defers) != len(live[0].defers) {
			panic(fmt.Errorf("unsupported: states with different defer stacks are merged"))
		}
		for i := range s.defers {
			if s.defers[i].id != live[0].defers[i].id {
				panic(fmt.Errorf("unsupported: states with different defer stacks are merged"))
			}
		}
	}
	return m
}

func newDead(c *Ctx) *State {
	return &State{c: c, dead: true, pc: "false", vars: map[types.Object]string{}, heaps: map[string]string{}, ghost: map[string]string{}}
}

func (c *Ctx) varSort(obj types.Object) string {
	if c.boxedVars != nil && c.boxedVars[obj] {
		return "Int"
	}
	return c.sortOf(obj.Type())
}
