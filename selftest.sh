#!/bin/sh
# Must-fail / benign corpus: every patch under selftest/mutants/<PROP>/ must make `check quick <PROP>` report a
# VIOLATION; every patch under selftest/benign/<PROP>/ must leave it at exit 0.  Works on scratch copies only.
cd "$(dirname "$0")"
export GOFLAGS=-mod=mod GOPROXY=off GOSUMDB=off GOTOOLCHAIN=local GOWORK=off
REPO="${VERIF_REPO:-/repo}"
props="$*"
[ -n "$props" ] || props=$( (ls selftest/mutants selftest/benign 2>/dev/null; ls seeded 2>/dev/null | sed 's/-.*//') | grep '^C' | sort -u)
fail=0; total=0
run_one() { # kind prop patch
  kind=$1; prop=$2; patch=$3
  scratch=$(mktemp -d "${TMPDIR:-/tmp}/gocv.XXXXXX")
  rsync -a --exclude .git "$REPO"/ "$scratch/repo/"
  if ! (cd "$scratch/repo" && patch -p1 -s < "$patch") ; then echo "SELFTEST-ERROR $patch does not apply"; rm -rf "$scratch"; fail=1; return; fi
  bin/gocv -repo "$scratch/repo" -verif "$(pwd)" -out "$scratch/out" -tier quick check "$prop" > "$scratch/log" 2>&1
  rc=$?
  total=$((total+1))
  if [ "$kind" = mutant ]; then
    if [ $rc -eq 1 ] && grep -q '^VIOLATION' "$scratch/log"; then
      echo "caught   $prop $(basename $(dirname $patch))/$(basename $patch): $(grep -A1 '^VIOLATION' "$scratch/log" | grep obligation | head -1 | sed 's/^ *//' | cut -c1-150)"
    else echo "MISSED   $prop $(basename $(dirname $patch))/$(basename $patch) (exit $rc)"; fail=1; fi
  else
    if [ $rc -eq 0 ]; then echo "quiet    $prop $(basename $patch)"; else echo "FALSE-ALARM $prop $(basename $patch): $(grep -A1 '^VIOLATION' "$scratch/log" | head -2 | tr '\n' ' ' | cut -c1-200)"; fail=1; fi
  fi
  rm -rf "$scratch"
}
for prop in $props; do
  for p in selftest/mutants/$prop/*.patch; do [ -f "$p" ] && run_one mutant $prop "$(pwd)/$p"; done
  for p in seeded/$prop-*/patch.diff; do [ -f "$p" ] && run_one mutant $prop "$(pwd)/$p"; done
  for p in selftest/benign/$prop/*.patch; do [ -f "$p" ] && run_one benign $prop "$(pwd)/$p"; done
done
echo "selftest: $total patches, fail=$fail"
[ $fail -eq 0 ] || exit 2
